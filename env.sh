# sourced by every verif command: offline Go toolchain able to load /repo (go 1.25 module)
export PATH=/opt/veriftools/go1.26.8/bin:$PATH
export GOTOOLCHAIN=local GOFLAGS=-mod=mod GOPROXY=off GOSUMDB=off GONOSUMDB=* GONOSUMCHECK=1 GOFLAGS=-mod=mod
export CARGO_NET_OFFLINE=true PIP_NO_INDEX=1
