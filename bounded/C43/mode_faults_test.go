package shard_test

// Bounded stand-in for the history part of C43 (never counted as proved): every sequence of
// up to 3 mode switches over {read-write, read-only, degraded, degraded-read-only}, with a
// blobstor (re)initialisation fault injected at each single switch position or at none, run
// on a real shard (FSTree + metabase in a temp dir). After every switch the accepted and
// rejected operations must match the mode the shard REPORTS; at the end the fault is removed,
// the shard returns to read-write and every stored object must be readable.
//
// Two tests: one without faults, one with a fault. The second one documents known finding F10
// (no roll-back after a half-done switch).

import (
	"crypto/sha256"
	"errors"
	"fmt"
	"path/filepath"
	"sync/atomic"
	"testing"
	"time"

	"github.com/nspcc-dev/neofs-node/pkg/local_object_storage/blobstor/common"
	"github.com/nspcc-dev/neofs-node/pkg/local_object_storage/blobstor/fstree"
	meta "github.com/nspcc-dev/neofs-node/pkg/local_object_storage/metabase"
	"github.com/nspcc-dev/neofs-node/pkg/local_object_storage/shard"
	"github.com/nspcc-dev/neofs-node/pkg/local_object_storage/shard/mode"
	"github.com/nspcc-dev/neofs-sdk-go/checksum"
	cid "github.com/nspcc-dev/neofs-sdk-go/container/id"
	cidtest "github.com/nspcc-dev/neofs-sdk-go/container/id/test"
	"github.com/nspcc-dev/neofs-sdk-go/object"
	oidtest "github.com/nspcc-dev/neofs-sdk-go/object/id/test"
	usertest "github.com/nspcc-dev/neofs-sdk-go/user/test"
	"go.uber.org/zap"
)

type verifEpoch struct{}

func (verifEpoch) CurrentEpoch() uint64 { return 0 }

type verifFaultyStorage struct {
	*fstree.FSTree
	failInit atomic.Bool
}

func (f *verifFaultyStorage) Init(id common.ID) error {
	if f.failInit.Load() {
		return errors.New("injected fault: storage medium I/O error")
	}
	return f.FSTree.Init(id)
}

func verifObject(cnr cid.ID) *object.Object {
	x := object.New(cnr, usertest.ID())
	x.SetID(oidtest.ID())
	x.SetPayload([]byte{1, 2, 3})
	x.SetPayloadSize(3)
	x.SetType(object.TypeRegular)
	x.SetPayloadChecksum(checksum.NewSHA256(sha256.Sum256(x.Payload())))
	return x
}

func verifNewShard(t *testing.T) (*shard.Shard, *verifFaultyStorage) {
	root := t.TempDir()
	fst := &verifFaultyStorage{FSTree: fstree.New(fstree.WithPath(filepath.Join(root, "fstree")))}
	sh := shard.New(
		shard.WithLogger(zap.NewNop()),
		shard.WithBlobstor(fst),
		shard.WithMetaBaseOptions(
			meta.WithPath(filepath.Join(root, "meta")),
			meta.WithEpochState(verifEpoch{}),
			meta.WithMaxBatchDelay(time.Microsecond),
		),
		shard.WithGCRemoverSleepInterval(time.Hour),
	)
	if err := sh.Open(); err != nil {
		t.Fatal(err)
	}
	if err := sh.Init(); err != nil {
		t.Fatal(err)
	}
	t.Cleanup(func() { _ = sh.Close() })
	return sh, fst
}

var verifModes = []mode.Mode{mode.ReadWrite, mode.ReadOnly, mode.Degraded, mode.DegradedReadOnly}

// verifBehaviourMatches checks that what the shard accepts matches the mode it reports.
func verifBehaviourMatches(sh *shard.Shard, cnr cid.ID, stored []*object.Object) error {
	m := sh.GetMode()
	// reads work in every mode (degraded modes read from the blobstor directly)
	for _, o := range stored {
		if _, err := sh.Get(o.Address(), true); err != nil {
			return fmt.Errorf("reported mode %s: reading a stored object fails: %w", m, err)
		}
	}
	// writes are accepted exactly in the non-read-only modes
	probe := verifObject(cnr)
	err := sh.Put(probe, nil)
	if m.ReadOnly() {
		if err == nil {
			return fmt.Errorf("reported mode %s: a put was accepted", m)
		}
	} else if err != nil {
		return fmt.Errorf("reported mode %s: a put was rejected: %w", m, err)
	}
	return nil
}

func verifRunHistories(t *testing.T, withFault bool) {
	cnr := cidtest.ID()
	f10 := 0
	for _, a := range verifModes {
		for _, b := range verifModes {
			for _, c := range verifModes {
				seq := []mode.Mode{a, b, c}
				faultPositions := []int{-1}
				if withFault {
					faultPositions = []int{0, 1, 2}
				}
				for _, fp := range faultPositions {
					sh, fst := verifNewShard(t)
					stored := []*object.Object{verifObject(cnr), verifObject(cnr)}
					for _, o := range stored {
						if err := sh.Put(o, nil); err != nil {
							t.Fatal(err)
						}
					}
					failedSwitch := false
					abandoned := false
					for i, m := range seq {
						fst.failInit.Store(i == fp)
						if err := sh.SetMode(m); err != nil {
							failedSwitch = true
						}
						fst.failInit.Store(false)
						if err := verifBehaviourMatches(sh, cnr, stored); err != nil {
							if failedSwitch {
								// known finding F10: no roll-back after a half-done switch
								f10++
								abandoned = true
								break
							}
							t.Fatalf("UNEXPECTED history %v, blobstor fault at switch #%d, after switch #%d (no switch had failed): %v", seq, fp, i, err)
						}
					}
					if abandoned {
						_ = sh.Close()
						continue
					}
					if err := sh.SetMode(mode.ReadWrite); err != nil {
						t.Fatalf("UNEXPECTED history %v, fault at #%d: final switch to read-write fails: %v", seq, fp, err)
					}
					for _, o := range stored {
						if _, err := sh.Get(o.Address(), false); err != nil {
							t.Fatalf("UNEXPECTED history %v, fault at #%d: object lost after returning to read-write: %v", seq, fp, err)
						}
					}
					_ = sh.Close()
				}
			}
		}
	}
	if f10 > 0 {
		t.Errorf("F10: in %d histories the behaviour stopped matching the reported mode after a switch that failed half-way (no roll-back)", f10)
	}
}

func TestVerifBoundedModeHistories(t *testing.T)          { verifRunHistories(t, false) }
func TestVerifBoundedModeHistoriesWithFault(t *testing.T) { verifRunHistories(t, true) }
