package governance

// Bounded stand-in for the parts of C36 that need counting arguments (size equality,
// uniqueness, membership): exhaustive over a universe of 7 keys, current alphabets of 1..5
// distinct keys, every main-network list of distinct keys from the universe (any length),
// and for updateInnerRing every inner ring = alphabet + up to 2 further distinct keys.
// Labelled bounded in the evidence; never counted as proved.

import (
	"sort"
	"testing"

	"github.com/nspcc-dev/neo-go/pkg/crypto/keys"
)

func verifUniverse(t *testing.T, n int) keys.PublicKeys {
	res := make(keys.PublicKeys, n)
	for i := range res {
		// deterministic keys: scalar i+1 times the base point
		b := make([]byte, 32)
		b[31] = byte(i + 1)
		k, err := keys.NewPrivateKeyFromBytes(b)
		if err != nil {
			t.Fatal(err)
		}
		res[i] = k.PublicKey()
	}
	sort.Sort(res)
	return res
}

func verifSubsets(u keys.PublicKeys, f func(keys.PublicKeys)) {
	for m := 0; m < 1<<len(u); m++ {
		var s keys.PublicKeys
		for i := range u {
			if m&(1<<i) != 0 {
				s = append(s, u[i])
			}
		}
		f(s)
	}
}

func verifHas(l keys.PublicKeys, k *keys.PublicKey) bool {
	for i := range l {
		if l[i].Equal(k) {
			return true
		}
	}
	return false
}

func verifDistinct(l keys.PublicKeys) bool {
	for i := range l {
		for j := i + 1; j < len(l); j++ {
			if l[i].Equal(l[j]) {
				return false
			}
		}
	}
	return true
}

func TestVerifBoundedAlphabet(t *testing.T) {
	u := verifUniverse(t, 7)
	verifSubsets(u, func(cur keys.PublicKeys) {
		if len(cur) == 0 || len(cur) > 5 {
			return
		}
		verifSubsets(u, func(mn keys.PublicKeys) {
			curC, mnC := append(keys.PublicKeys{}, cur...), append(keys.PublicKeys{}, mn...)
			res, err := newAlphabetList(curC, mnC)
			if len(mn) < len(cur) {
				if err == nil {
					t.Fatalf("cur=%d mainnet=%d: shorter main-network list accepted", len(cur), len(mn))
				}
				return
			}
			if err != nil {
				t.Fatalf("unexpected error %v", err)
			}
			newInMn := 0
			for _, k := range mn {
				if !verifHas(cur, k) {
					newInMn++
				}
			}
			if res == nil {
				// proposed only when something changed: nothing proposed means no admissible new key
				if newInMn > 0 && (len(cur)-1)/3 > 0 {
					// a new key is available and the limit allows one: it must be taken unless the
					// list was filled by kept keys sorted before it
					keptBefore := 0
					for _, k := range mn {
						if !verifHas(cur, k) {
							break
						}
						keptBefore++
					}
					if keptBefore < len(cur) {
						t.Fatalf("cur=%v mainnet=%v: change available but nothing proposed", prettyKeys(cur), prettyKeys(mn))
					}
				}
				return
			}
			if len(res) != len(cur) {
				t.Fatalf("cur=%s mainnet=%s: size %d != %d", prettyKeys(cur), prettyKeys(mn), len(res), len(cur))
			}
			if !verifDistinct(res) {
				t.Fatalf("cur=%s mainnet=%s: duplicates in %s", prettyKeys(cur), prettyKeys(mn), prettyKeys(res))
			}
			added := 0
			for _, k := range res {
				switch {
				case verifHas(cur, k):
				case verifHas(mn, k):
					added++
				default:
					t.Fatalf("key from nowhere")
				}
			}
			if added == 0 || added > (len(cur)-1)/3 {
				t.Fatalf("cur=%s mainnet=%s: %d new keys, allowed 1..%d", prettyKeys(cur), prettyKeys(mn), added, (len(cur)-1)/3)
			}
			// inner ring = current alphabet + up to two further distinct keys
			verifSubsets(u, func(extra keys.PublicKeys) {
				if len(extra) > 2 {
					return
				}
				for _, k := range extra {
					if verifHas(cur, k) {
						return
					}
				}
				ir := append(append(keys.PublicKeys{}, cur...), extra...)
				nir, err := updateInnerRing(ir, cur, res)
				if err != nil {
					t.Fatalf("updateInnerRing: %v", err)
				}
				if !verifDistinct(nir) {
					t.Fatalf("inner ring %s, alphabet %s -> %s: new inner ring has duplicates: %s", prettyKeys(ir), prettyKeys(cur), prettyKeys(res), prettyKeys(nir))
				}
				// differs from the old list exactly by the replaced keys
				for _, k := range nir {
					if !verifHas(ir, k) && !verifHas(res, k) {
						t.Fatalf("new inner ring has a foreign key")
					}
				}
				for _, k := range res {
					if !verifHas(nir, k) {
						t.Fatalf("new alphabet key missing from the new inner ring")
					}
				}
				for _, k := range ir {
					if !verifHas(cur, k) && !verifHas(nir, k) {
						t.Fatalf("non-alphabet inner ring key lost")
					}
					if verifHas(cur, k) && !verifHas(res, k) && verifHas(nir, k) {
						t.Fatalf("replaced alphabet key still in the inner ring")
					}
				}
			})
		})
	})
}
