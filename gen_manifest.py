#!/usr/bin/env python3
"""Regenerates MANIFEST.json from manifest_meta.json (levels/notes) and props.json."""
import json, subprocess
meta = json.load(open('/verif/manifest_meta.json'))
props = json.load(open('/verif/props.json'))
checks = []
for pid in sorted(meta['checks']):
    m = meta['checks'][pid]
    assert pid in props, pid
    checks.append({
        "property_id": pid,
        "quick_cmd": f"./check {pid} --tier quick",
        "thorough_cmd": f"./check {pid} --tier thorough",
        "evidence_file": f"/verif/evidence/{pid}.json",
        "replay_cmd_template": "./check --replay {path}",
        "engine": "govc",
        "level_claimed": {"category": "proof", "text": m['level_text'], "design_ref": m.get('design_ref', 'DESIGN.md §6')},
        "level_note": m['level_note'],
        "technique": m.get('technique', 'deductive verification: VCs from go/ssa + contracts, z3/cvc5'),
    })
try:
    commits = subprocess.check_output(['git', '-C', '/repo', 'log', '--format=%H %s', '60b87e2..HEAD'], text=True).strip().split('\n')
except Exception:
    commits = []
hooks = [c.split()[0] for c in commits if c and ' verif:' in c]
man = {
    "version": 1,
    "setup_cmd": "./setup.sh",
    "hooks": {
        "guard": "verif",
        "enable": "go build -tags verif (the only guarded files are comment-only verif_contracts.go contract files read by govc)",
        "baseline_off_cmd": "cd /repo && go test -mod=mod -vet=off -count=1 -timeout 25m ./...",
        "source_commits": hooks,
        "add_only": True,
    },
    "engines": [{"name": "govc", "path": "/verif/govc", "serves_properties": sorted(meta['checks']),
                 "kind_free_text": "verification-condition generator over go/ssa with //@ contracts; obligations discharged by z3 4.8.12 / z3 5.1.0 / cvc5 1.0.3; counterexamples replayed on the real code with go test -overlay"}],
    "checks": checks,
    "not_applicable": [{"property_id": k, "reason": v} for k, v in sorted(meta['not_applicable'].items())],
    "notes": "See DESIGN.md. Properties neither claimed nor listed as not applicable yet are listed in not_applicable with the reason 'check not built yet'.",
}
allids = [json.loads(l)['id'] for l in open('/verif/properties.jsonl')]
for pid in allids:
    if pid not in meta['checks'] and pid not in meta['not_applicable']:
        man['not_applicable'].append({"property_id": pid, "reason": "kernel check not completed yet (planned in DESIGN.md §6); not claimed"})
man['not_applicable'].sort(key=lambda x: x['property_id'])
json.dump(man, open('/verif/MANIFEST.json', 'w'), indent=1)
print(len(checks), 'checks,', len(man['not_applicable']), 'not applicable')
