package main

import (
	"bytes"
	"context"
	"encoding/json"
	"fmt"
	"math/big"
	"os"
	"os/exec"
	"path/filepath"
	"regexp"
	"strings"
	"text/template"
	"time"
)

// parseModel parses the (get-value ...) answer: ((term value) ...)
func parseModel(out string) map[string]string {
	m := map[string]string{}
	i := strings.Index(out, "((")
	if i < 0 {
		return m
	}
	s := out[i:]
	// tokenise s-expressions at depth 2
	depth := 0
	start := -1
	for k := 0; k < len(s); k++ {
		switch s[k] {
		case '|':
			// skip quoted symbol
			j := strings.IndexByte(s[k+1:], '|')
			if j < 0 {
				return m
			}
			k += j + 1
		case '(':
			depth++
			if depth == 2 {
				start = k
			}
		case ')':
			if depth == 2 && start >= 0 {
				pair := s[start+1 : k]
				name, val := splitPair(pair)
				if name != "" {
					m[name] = val
				}
				start = -1
			}
			depth--
			if depth == 0 {
				return m
			}
		}
	}
	return m
}

func splitPair(p string) (string, string) {
	p = strings.TrimSpace(p)
	if p == "" {
		return "", ""
	}
	if p[0] == '|' {
		j := strings.IndexByte(p[1:], '|')
		if j < 0 {
			return "", ""
		}
		return p[:j+2], strings.TrimSpace(p[j+2:])
	}
	if p[0] == '(' {
		// application term as key: find matching paren
		d := 0
		for k := 0; k < len(p); k++ {
			if p[k] == '(' {
				d++
			} else if p[k] == ')' {
				d--
				if d == 0 {
					return p[:k+1], strings.TrimSpace(p[k+1:])
				}
			}
		}
		return "", ""
	}
	k := strings.IndexAny(p, " \t\n")
	if k < 0 {
		return p, ""
	}
	return p[:k], strings.TrimSpace(p[k:])
}

// modelValue converts an SMT value to a decimal string (unsigned for bit-vectors) or true/false
func modelValue(v string) string {
	v = strings.TrimSpace(v)
	switch {
	case strings.HasPrefix(v, "#x"):
		n, _ := new(big.Int).SetString(v[2:], 16)
		return n.String()
	case strings.HasPrefix(v, "#b"):
		n, _ := new(big.Int).SetString(v[2:], 2)
		return n.String()
	case strings.HasPrefix(v, "(- "):
		return "-" + strings.TrimSuffix(strings.TrimPrefix(v, "(- "), ")")
	case strings.HasPrefix(v, "(_ bv"):
		f := strings.Fields(v)
		return strings.TrimPrefix(f[1], "bv")
	}
	return v
}

// cleanModel maps "p_name!12" / "|p_r.Mode!3|" to "name" / "r.Mode"
func cleanModel(m map[string]string) map[string]string {
	out := map[string]string{}
	re := regexp.MustCompile(`^\|?p_(.*?)(?:!\d+)?\|?$`)
	for k, v := range m {
		if mm := re.FindStringSubmatch(k); mm != nil {
			out[mm[1]] = modelValue(v)
		}
	}
	return out
}

func writeReplayFile(prop, name, content string) string {
	dir := filepath.Join(*flagVerif, "evidence", "replay", prop)
	os.MkdirAll(dir, 0o755)
	p := filepath.Join(dir, sanitize(name)+".txt")
	os.WriteFile(p, []byte(content), 0o644)
	return p
}

// handleFailure: replay a failed/undecided obligation on the real code and print the VIOLATION line.
func handleFailure(P *Program, prop string, cfg *PropConfig, o *Obl, c *Ctx) string {
	var sb strings.Builder
	fmt.Fprintf(&sb, "property: %s\nobligation: %s\nkind: %s\nfunction: %s\nclause: %s\nsolver result: %s (%s)\nall solvers: %v\n\n", prop, o.Name, o.Kind, o.Fn, o.Src, o.Res.Result, o.Res.Solver, o.Res.All)
	fmt.Fprintf(&sb, "---- solver output\n%s\n", truncate(o.Res.Output, 6000))
	model := map[string]string{}
	if o.Res.Result == "sat" {
		model = cleanModel(parseModel(o.Res.Output))
		mj, _ := json.MarshalIndent(model, "", " ")
		fmt.Fprintf(&sb, "---- counterexample (function inputs)\n%s\n", mj)
	}
	confirmed := false
	ran := false
	for _, rs := range cfg.Replays {
		re, err := regexp.Compile(rs.Match)
		if err != nil || !re.MatchString(o.Name) {
			continue
		}
		tmplPath := filepath.Join(*flagVerif, "replay", prop, rs.Template)
		src, err := renderTemplate(tmplPath, model, o)
		if err != nil {
			fmt.Fprintf(&sb, "---- replay template error: %v\n", err)
			continue
		}
		tmp := filepath.Join(scratch(), "replay_"+sanitize(o.Name)+"_test.go")
		os.WriteFile(tmp, []byte(src), 0o644)
		status, out, secs := runInjectedTest(P, tmp, rs.PkgDir, rs.Run, rs.Ext, 120)
		ran = true
		ok := status != "fail"
		fmt.Fprintf(&sb, "---- replay on the real code: %s in %s (%.1fs): result=%s\n---- replay test source\n%s\n---- replay output\n%s\n", rs.Run, rs.PkgDir, secs, status, src, truncate(out, 8000))
		_ = status
		if !ok {
			confirmed = true
		}
		break
	}
	if o.Query != "" {
		fmt.Fprintf(&sb, "---- obligation (SMT-LIB, tail)\n%s\n", truncate(tail(o.Query, 4000), 4000))
	}
	rp := writeReplayFile(prop, o.Name, sb.String())
	if confirmed {
		fmt.Printf("VIOLATION property=%s replay=%s obligation=%s confirmed-on-real-code\n", prop, rp, o.Name)
	} else {
		why := "no replay template for this obligation"
		if ran {
			why = "replay of the solver model passed on the real code"
		}
		_ = why
		fmt.Printf("VIOLATION property=%s replay=%s obligation=%s no-failing-input-found\n", prop, rp, o.Name)
	}
	return rp
}

func tail(s string, n int) string {
	if len(s) <= n {
		return s
	}
	return s[len(s)-n:]
}

func truncate(s string, n int) string {
	if len(s) <= n {
		return s
	}
	return s[:n] + "\n...[truncated]"
}

func renderTemplate(path string, model map[string]string, o *Obl) (string, error) {
	b, err := os.ReadFile(path)
	if err != nil {
		return "", err
	}
	funcs := template.FuncMap{
		"val": func(name, def string) string {
			if v, ok := model[name]; ok && v != "" {
				return v
			}
			return def
		},
		"has": func(name string) bool { _, ok := model[name]; return ok },
	}
	// delimiters <<< >>> : Go composite literals contain "{{"
	t, err := template.New("replay").Delims("<<<", ">>>").Funcs(funcs).Parse(string(b))
	if err != nil {
		return "", err
	}
	var out bytes.Buffer
	err = t.Execute(&out, map[string]any{"M": model, "Obligation": o.Name, "HaveModel": len(model) > 0})
	return out.String(), err
}

// runInjectedTest runs an in-package test file against the real code using -overlay
// (nothing is written into the repository).
func runInjectedTest(P *Program, testFile, pkgDir, run string, external bool, timeoutS int) (string, string, float64) {
	target := filepath.Join(P.Repo, pkgDir, "verif_injected_test.go")
	ov := map[string]any{"Replace": map[string]string{target: testFile}}
	ovPath := filepath.Join(scratch(), fmt.Sprintf("ov_%d.json", time.Now().UnixNano()))
	b, _ := json.Marshal(ov)
	os.WriteFile(ovPath, b, 0o644)
	defer os.Remove(ovPath)
	ctx, cancel := context.WithTimeout(context.Background(), time.Duration(timeoutS+30)*time.Second)
	defer cancel()
	goBin, env := replayToolchain(P.Repo)
	args := []string{"test", "-mod=mod", "-tags=verif", "-overlay", ovPath, "-vet=off", "-count=1", "-v", fmt.Sprintf("-timeout=%ds", timeoutS), "-run", run, "./" + pkgDir}
	cmd := exec.CommandContext(ctx, "bash", "-c", "ulimit -v 12000000; exec \"$0\" \"$@\"", goBin)
	cmd.Args = append(cmd.Args, args...)
	cmd.Dir = P.Repo
	cmd.Env = env
	var out bytes.Buffer
	cmd.Stdout = &out
	cmd.Stderr = &out
	t0 := time.Now()
	err := cmd.Run()
	secs := time.Since(t0).Seconds()
	o := out.String()
	switch {
	case err == nil && strings.Contains(o, "--- PASS"):
		return "pass", o, secs
	case strings.Contains(o, "--- FAIL") || strings.Contains(o, "panic:") || strings.Contains(o, "fatal error:") || strings.Contains(o, "test timed out"):
		return "fail", o, secs
	case err == nil:
		return "error", o + "\n(no test ran)", secs
	}
	return "error", o, secs
}

// replayToolchain: the repository's own toolchain (the one go.mod's go directive names,
// taken from the module cache) so that replays run exactly what the test suite runs.
func replayToolchain(repo string) (string, []string) {
	var env []string
	for _, e := range os.Environ() {
		k, _, _ := strings.Cut(e, "=")
		switch k {
		case "GOTOOLCHAIN", "GOFLAGS", "PATH", "GOSUMDB", "GONOSUMDB", "GONOSUMCHECK", "GOPROXY":
			continue
		}
		env = append(env, e)
	}
	path := os.Getenv("VERIF_ORIG_PATH")
	if path == "" {
		path = "/usr/local/go/bin:/usr/local/sbin:/usr/local/bin:/usr/sbin:/usr/bin:/sbin:/bin:/root/go/bin"
	}
	ver := ""
	if b, err := os.ReadFile(filepath.Join(repo, "go.mod")); err == nil {
		for _, l := range strings.Split(string(b), "\n") {
			f := strings.Fields(l)
			if len(f) == 2 && f[0] == "go" {
				ver = f[1]
			}
			if len(f) == 2 && f[0] == "toolchain" {
				ver = strings.TrimPrefix(f[1], "go")
				break
			}
		}
	}
	modcache := os.Getenv("GOMODCACHE")
	if modcache == "" {
		modcache = "/root/go/pkg/mod"
	}
	tc := filepath.Join(modcache, "golang.org", "toolchain@v0.0.1-go"+ver+".linux-amd64", "bin", "go")
	if _, err := os.Stat(tc); err == nil && ver != "" {
		env = append(env, "PATH="+filepath.Dir(tc)+":"+path, "GOFLAGS=-mod=mod", "GOPROXY=off", "GOTOOLCHAIN=local")
		return tc, env
	}
	env = append(env, "PATH="+path, "GOFLAGS=-mod=mod", "GOPROXY=off", "GOTOOLCHAIN=auto")
	return "/usr/bin/go", env
}

func rerunReplay(path string) int {
	b, err := os.ReadFile(path)
	if err != nil {
		fmt.Fprintln(os.Stderr, err)
		return 2
	}
	fmt.Print(string(b))
	return 0
}

// ---------------------------------------------------------------- lemmas

func lemmaObligations(P *Program, prop string) []*Obl {
	var out []*Obl
	for _, ax := range P.CS.Axioms {
		if !ax.Lemma || !hasProp(ax.Props, prop) {
			continue
		}
		con := &Contract{Kind: "lemma", Name: ax.Name, Mode: ax.Mode, Pkg: pkgOfFile(P, ax.File), LoopInv: map[int][]*Clause{}, LoopDec: map[int]*Clause{}, Opts: map[string]string{}}
		c := P.newCtx(nil, con)
		c.lemma = true
		c.curReach = "true"
		env := &Env{c: c, names: map[string]*Val{}, noLocals: true, pkgPath: con.Pkg}
		env.st = c.newInitialState()
		env.old = env.st
		// axioms of the same property are available to lemmas
		for _, a2 := range P.CS.Axioms {
			if a2.Lemma || !hasProp(a2.Props, prop) {
				continue
			}
			c.asserts = append(c.asserts, c.evalBool(a2.E, env, "axiom"))
		}
		cond := c.evalBool(ax.E, env, "lemma")
		o := &Obl{Name: "lemma." + ax.Name, Kind: "L", Reach: "true", Cond: cond, Src: ax.Src, Props: []string{prop}}
		if c.err != nil {
			fmt.Fprintf(os.Stderr, "ERROR lemma %s: %v\n", ax.Name, c.err)
			o.Status = "undecided"
			o.Res = SolverRes{Result: "error", Output: c.err.Error()}
		}
		o.Query = buildQuery(c.prelude(), o, nil)
		out = append(out, o)
	}
	return out
}
