package main

import "strings"

// abstractMulDiv: contract option abstract=muldiv treats multiplication and unsigned
// division of two non-constant bit-vector operands as uninterpreted functions (a sound
// abstraction: only congruence is known). It keeps deadline-style formulas out of the
// bit-blaster when all that has to be shown is that the code computes the same
// expression as the specification.
func (c *Ctx) abstractMulDiv(x, y string) bool {
	if c.con == nil || !strings.Contains(c.con.Opts["abstract"], "muldiv") {
		return false
	}
	isConst := func(s string) bool { return strings.HasPrefix(s, "#x") || strings.HasPrefix(s, "#b") || strings.HasPrefix(s, "(_ bv") }
	return !isConst(x) && !isConst(y)
}
