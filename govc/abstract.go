package main

import "strings"

// abstractMulDiv: contract option abstract=muldiv treats multiplication and unsigned
// division of two non-constant bit-vector operands as uninterpreted functions (a sound
// abstraction: only congruence is known). It keeps deadline-style formulas out of the
// bit-blaster when all that has to be shown is that the code computes the same
// expression as the specification.
func (c *Ctx) abstractMulDiv(x, y string) bool {
	if c.con == nil || !strings.Contains(c.con.Opts["abstract"], "muldiv") {
		return false
	}
	isConst := func(s string) bool { return strings.HasPrefix(s, "#x") || strings.HasPrefix(s, "#b") || strings.HasPrefix(s, "(_ bv") }
	return !isConst(x) && !isConst(y)
}

// abstractCopyContent: contract option abstract=copycontent - copy() and []byte(string) still
// yield their element counts, but the contents of the destination are left unconstrained (a
// sound over-approximation). For obligations about offsets and lengths only: the quantified
// content facts of chained copies otherwise dominate the solver time.
func (c *Ctx) abstractCopyContent() bool {
	return c.con != nil && strings.Contains(c.con.Opts["abstract"], "copycontent")
}
