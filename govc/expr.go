package main

// Contract expression language: Go-like expressions plus
//   old(e)  forall x T :: e  exists x T :: e  a ==> b  a <==> b  ite(c,a,b)
// parsed by a small Pratt parser into Expr trees.

import (
	"fmt"
	"strings"
	"unicode"
)

type Expr struct {
	Op   string  // "id","num","str","call","sel","idx","slice","un","bin","forall","exists"
	Name string  // identifier / operator / selector name / literal text
	Args []*Expr // operands
	// quantifier
	BVar  string
	BType string
	Pos   string
}

func (e *Expr) String() string {
	switch e.Op {
	case "id", "num":
		return e.Name
	case "str":
		return fmt.Sprintf("%q", e.Name)
	case "call":
		var a []string
		for _, x := range e.Args {
			a = append(a, x.String())
		}
		return e.Name + "(" + strings.Join(a, ", ") + ")"
	case "sel":
		return e.Args[0].String() + "." + e.Name
	case "idx":
		return e.Args[0].String() + "[" + e.Args[1].String() + "]"
	case "slice":
		s := e.Args[0].String() + "["
		if e.Args[1] != nil {
			s += e.Args[1].String()
		}
		s += ":"
		if e.Args[2] != nil {
			s += e.Args[2].String()
		}
		return s + "]"
	case "un":
		return e.Name + e.Args[0].String()
	case "bin":
		return "(" + e.Args[0].String() + " " + e.Name + " " + e.Args[1].String() + ")"
	case "forall", "exists":
		return "(" + e.Op + " " + e.BVar + " " + e.BType + " :: " + e.Args[0].String() + ")"
	}
	return "?"
}

type lexTok struct {
	kind string // id num str op eof
	text string
}

type lexer struct {
	src  []rune
	pos  int
	toks []lexTok
}

var ops3 = []string{"<==>", "==>", "&&", "||", "==", "!=", "<=", ">=", "<<", ">>", "&^", "::"}

func lex(s string) ([]lexTok, error) {
	var toks []lexTok
	r := []rune(s)
	i := 0
	for i < len(r) {
		c := r[i]
		if unicode.IsSpace(c) {
			i++
			continue
		}
		if unicode.IsLetter(c) || c == '_' || c == '$' {
			j := i
			for j < len(r) && (unicode.IsLetter(r[j]) || unicode.IsDigit(r[j]) || r[j] == '_' || r[j] == '$') {
				j++
			}
			toks = append(toks, lexTok{"id", string(r[i:j])})
			i = j
			continue
		}
		if unicode.IsDigit(c) {
			j := i
			for j < len(r) && (unicode.IsDigit(r[j]) || unicode.IsLetter(r[j]) || r[j] == '_') {
				j++
			}
			toks = append(toks, lexTok{"num", strings.ReplaceAll(string(r[i:j]), "_", "")})
			i = j
			continue
		}
		if c == '"' {
			j := i + 1
			var sb strings.Builder
			for j < len(r) && r[j] != '"' {
				if r[j] == '\\' && j+1 < len(r) {
					j++
					switch r[j] {
					case 'n':
						sb.WriteRune('\n')
					case 't':
						sb.WriteRune('\t')
					case '0':
						sb.WriteRune(0)
					default:
						sb.WriteRune(r[j])
					}
				} else {
					sb.WriteRune(r[j])
				}
				j++
			}
			if j >= len(r) {
				return nil, fmt.Errorf("unterminated string")
			}
			toks = append(toks, lexTok{"str", sb.String()})
			i = j + 1
			continue
		}
		matched := false
		for _, o := range ops3 {
			if strings.HasPrefix(string(r[i:min(i+len(o), len(r))]), o) {
				toks = append(toks, lexTok{"op", o})
				i += len([]rune(o))
				matched = true
				break
			}
		}
		if matched {
			continue
		}
		if strings.ContainsRune("+-*/%<>!()[],.:&|^", c) {
			toks = append(toks, lexTok{"op", string(c)})
			i++
			continue
		}
		return nil, fmt.Errorf("unexpected character %q in %q", c, s)
	}
	toks = append(toks, lexTok{"eof", ""})
	return toks, nil
}

type parser struct {
	toks []lexTok
	p    int
	src  string
}

func parseExpr(s string) (*Expr, error) {
	toks, err := lex(s)
	if err != nil {
		return nil, err
	}
	p := &parser{toks: toks, src: s}
	e, err := p.expr(0)
	if err != nil {
		return nil, fmt.Errorf("%v in %q", err, s)
	}
	if p.peek().kind != "eof" {
		return nil, fmt.Errorf("trailing %q in %q", p.peek().text, s)
	}
	return e, nil
}

func (p *parser) peek() lexTok { return p.toks[p.p] }
func (p *parser) next() lexTok  { t := p.toks[p.p]; p.p++; return t }
func (p *parser) accept(op string) bool {
	if p.peek().kind == "op" && p.peek().text == op {
		p.p++
		return true
	}
	return false
}
func (p *parser) expect(op string) error {
	if !p.accept(op) {
		return fmt.Errorf("expected %q got %q", op, p.peek().text)
	}
	return nil
}

// precedence (higher binds tighter)
var binPrec = map[string]int{
	"<==>": 1, "==>": 2, "||": 3, "&&": 4,
	"==": 5, "!=": 5, "<": 5, "<=": 5, ">": 5, ">=": 5,
	"+": 6, "-": 6, "|": 6, "^": 6,
	"*": 7, "/": 7, "%": 7, "<<": 7, ">>": 7, "&": 7, "&^": 7,
}

func (p *parser) expr(minPrec int) (*Expr, error) {
	lhs, err := p.unary()
	if err != nil {
		return nil, err
	}
	for {
		t := p.peek()
		if t.kind != "op" {
			return lhs, nil
		}
		prec, ok := binPrec[t.text]
		if !ok || prec < minPrec {
			return lhs, nil
		}
		p.next()
		var rhs *Expr
		if t.text == "==>" { // right assoc
			rhs, err = p.expr(prec)
		} else {
			rhs, err = p.expr(prec + 1)
		}
		if err != nil {
			return nil, err
		}
		lhs = &Expr{Op: "bin", Name: t.text, Args: []*Expr{lhs, rhs}}
	}
}

func (p *parser) unary() (*Expr, error) {
	t := p.peek()
	if t.kind == "op" && (t.text == "!" || t.text == "-" || t.text == "^") {
		p.next()
		x, err := p.unary()
		if err != nil {
			return nil, err
		}
		return &Expr{Op: "un", Name: t.text, Args: []*Expr{x}}, nil
	}
	return p.postfix()
}

func (p *parser) typeName() (string, error) {
	// type: [*|[]]* ident(.ident)*
	var sb strings.Builder
	for {
		if p.accept("*") {
			sb.WriteString("*")
		} else if p.peek().kind == "op" && p.peek().text == "[" {
			p.next()
			if err := p.expect("]"); err != nil {
				return "", err
			}
			sb.WriteString("[]")
		} else {
			break
		}
	}
	if p.peek().kind != "id" {
		return "", fmt.Errorf("expected type name")
	}
	sb.WriteString(p.next().text)
	for p.accept(".") {
		sb.WriteString(".")
		sb.WriteString(p.next().text)
	}
	return sb.String(), nil
}

func (p *parser) primary() (*Expr, error) {
	t := p.next()
	switch t.kind {
	case "num":
		return &Expr{Op: "num", Name: t.text}, nil
	case "str":
		return &Expr{Op: "str", Name: t.text}, nil
	case "id":
		if t.text == "forall" || t.text == "exists" {
			v := p.next()
			if v.kind != "id" {
				return nil, fmt.Errorf("quantifier needs a variable")
			}
			ty, err := p.typeName()
			if err != nil {
				return nil, err
			}
			if err := p.expect("::"); err != nil {
				return nil, err
			}
			body, err := p.expr(0)
			if err != nil {
				return nil, err
			}
			return &Expr{Op: t.text, BVar: v.text, BType: ty, Args: []*Expr{body}}, nil
		}
		return &Expr{Op: "id", Name: t.text}, nil
	case "op":
		if t.text == "(" {
			e, err := p.expr(0)
			if err != nil {
				return nil, err
			}
			if err := p.expect(")"); err != nil {
				return nil, err
			}
			return e, nil
		}
	}
	return nil, fmt.Errorf("unexpected lexTok %q", t.text)
}

func (p *parser) postfix() (*Expr, error) {
	e, err := p.primary()
	if err != nil {
		return nil, err
	}
	for {
		switch {
		case p.accept("."):
			n := p.next()
			if n.kind != "id" {
				return nil, fmt.Errorf("selector needs a name")
			}
			e = &Expr{Op: "sel", Name: n.text, Args: []*Expr{e}}
		case p.accept("("):
			// call: callee must be id or sel chain (qualified name)
			name := qualName(e)
			if name == "" {
				return nil, fmt.Errorf("call of non-name")
			}
			var args []*Expr
			for !p.accept(")") {
				a, err := p.expr(0)
				if err != nil {
					return nil, err
				}
				args = append(args, a)
				if !p.accept(",") {
					if err := p.expect(")"); err != nil {
						return nil, err
					}
					break
				}
			}
			e = &Expr{Op: "call", Name: name, Args: args}
		case p.accept("["):
			var lo, hi *Expr
			if !(p.peek().kind == "op" && p.peek().text == ":") {
				lo, err = p.expr(0)
				if err != nil {
					return nil, err
				}
			}
			if p.accept(":") {
				if !(p.peek().kind == "op" && p.peek().text == "]") {
					hi, err = p.expr(0)
					if err != nil {
						return nil, err
					}
				}
				if err := p.expect("]"); err != nil {
					return nil, err
				}
				e = &Expr{Op: "slice", Args: []*Expr{e, lo, hi}}
			} else {
				if err := p.expect("]"); err != nil {
					return nil, err
				}
				e = &Expr{Op: "idx", Args: []*Expr{e, lo}}
			}
		default:
			return e, nil
		}
	}
}

func qualName(e *Expr) string {
	switch e.Op {
	case "id":
		return e.Name
	case "sel":
		q := qualName(e.Args[0])
		if q == "" {
			return ""
		}
		return q + "." + e.Name
	}
	return ""
}
