package main

// range-over-func (for x := range seq { body }): go/ssa lowers the body to a synthetic
// closure F$k(x) bool over captured cells plus a cell jump$k, and calls seq(F$k). The
// protocol of the generated code: the body is entered with jump == 0, sets it to -1
// while running, back to 0 when it wants the next element (returns true) and to the exit
// number (>= 1) when the loop is left by return/break (returns false).
//
// The iterator itself is opaque. Its call is modelled as a loop cut with invariant true:
//   (A) an arbitrary iteration, started in an arbitrary heap with jump == 0, that exits
//       (body returned false): the state after the call is the state that iteration left;
//   (B) no iteration exits: arbitrary heap with jump == 0.
// Whatever the body is obliged to (call rules, preconditions of callees) is generated while
// the body is executed symbolically in (A); iterations that continue are covered because
// (A) starts from an arbitrary state.

import (
	"go/types"
	"strings"

	"golang.org/x/tools/go/ssa"
)

func isRangeFuncBody(f *ssa.Function) bool {
	for _, fv := range f.FreeVars {
		if strings.HasPrefix(fv.Name(), "jump$") {
			return true
		}
	}
	return false
}

func (c *Ctx) rangeFuncCall(ci *closureInfo, st *State) {
	reach0 := c.curReach
	var jump *Val
	for i, fv := range ci.fn.FreeVars {
		if strings.HasPrefix(fv.Name(), "jump$") && i < len(ci.bind) {
			jump = ci.bind[i]
		}
	}
	intT := types.Typ[types.Int]
	zero := c.zeroVal(intT).S

	// (A) an exiting iteration
	stA := st.clone()
	c.havocHeap(stA, c.isGhostMap)
	c.curReach = reach0
	if jump != nil {
		c.assumeHere(sEq(c.load(jump, intT, stA).S, zero))
	}
	var args []*Val
	for _, p := range ci.fn.Params {
		args = append(args, c.freshVal(p.Type(), "yield_"+p.Name()))
	}
	res := c.inlineClosure(ci, args, stA, types.Typ[types.Bool])
	exitA := "false"
	if res != nil && c.curReach != "false" {
		exitA = c.defineBool("rfexit", sAnd(c.curReach, sNot(res.S)))
	}

	// (B) the iterator ran to its end (or yielded nothing)
	stB := st.clone()
	c.havocHeap(stB, c.isGhostMap)
	b := c.fresh1("rfdone", "Bool")
	condB := c.defineBool("rfdone", sAnd(reach0, b))
	c.curReach = condB
	if jump != nil {
		c.assumeHere(sEq(c.load(jump, intT, stB).S, zero))
	}

	merged := c.mergeStates([]mergePred{{exitA, stA}, {condB, stB}})
	*st = *merged
	c.curReach = c.defineBool("rfafter", sOr(exitA, condB))
	c.inlined["rangefunc:"+ci.fn.Name()]++
}
