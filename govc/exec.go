package main

// Symbolic execution of one SSA function into block-predicate verification conditions.

import (
	"path"
	"fmt"
	"go/constant"
	"go/token"
	"go/types"
	"math/big"
	"sort"
	"strings"

	"golang.org/x/tools/go/ssa"
)

type Obl struct {
	Name   string
	Kind   string // F S G L cover
	Fn     string
	Pos    string
	Reach  string
	Cond   string
	Src    string // contract clause text
	Props  []string
	Query  string
	Res    SolverRes
	Status string // discharged | failed | undecided
	Known  string
	Prefer string // preferred solver (contract option solver=...)
	Vars   map[string]string // model variable names of interest: source name -> smt term
	// NAsserts: how many assumed facts existed when the obligation was generated. Only
	// those may be used to discharge it: a fact assumed later in the execution order (the
	// invariant assumed at a loop head, the postcondition of a later call) must not help
	// to prove an earlier obligation - that would be circular.
	NAsserts int
}

type closureInfo struct {
	fn   *ssa.Function
	bind []*Val
}

type Ctx struct {
	P         *Program
	fn        *ssa.Function
	con       *Contract
	mode      string
	decls     []string
	declared  map[string]bool
	axioms    []string
	asserts   []string
	obls      []*Obl
	vals      map[ssa.Value]*Val
	closures  map[ssa.Value]*closureInfo
	strLits   map[string]string
	heapSorts map[string]string
	fresh     int
	epochSeq  int
	curReach  string
	dropped   map[string]int
	entry     *State
	usedDeps  map[string]bool
	usedAx    map[string]bool
	localExact map[*ssa.Alloc]bool
	allocRefs []string
	dbg       map[string][]ssa.Value // source var name -> values (DebugRef)
	dbgObj    map[ssa.Value]types.Object // value -> the source variable it was recorded for
	paramVals map[string]*Val
	callSeq   map[string]int
	oblSeq    map[string]int
	loopOrd   map[*ssa.BasicBlock]int
	covers    []*Obl
	hasDefer  bool
	props     []string
	err       error
	retReach  []string
	depth     int
	pureDefs  map[string]bool
	inlineStack []*ssa.Function
	bodyLines string
	inSpec    bool
	globals   map[string]*Val
	typeTags  map[string]string
	uncontracted map[string]int
	inlined   map[string]int
	havocCount int
	activeRules []*CallRule
	ruleHits  map[string]int
	lemma     bool
	stableNames bool
	nzDone    map[string]bool
	definesUsed map[string]bool
	specFacts   map[string]bool
	gcOrder     int
	curBlk      *ssa.BasicBlock
	dbgAt       map[string]map[ssa.Value][]ssa.Instruction // where (DebugRef) a name was bound to / read as a value
	pathFact    map[int]bool
	priorRefs   []string
	allocClock  int
	arrFieldSeen map[string]string
	stableFV  map[string]bool
	provIDs   map[string]int
	chanLinksUsed map[string]bool
	inst      string // instance label (opt instances=...), appended to obligation names
}

func (c *Ctx) drop(what string) { c.dropped[what]++ }

func (c *Ctx) assumeHere(fact string) {
	if fact == "true" {
		return
	}
	c.asserts = append(c.asserts, sImp(c.curReach, fact))
	c.markPathFact()
}

// markPathFact: the fact just appended to c.asserts was assumed at a program point (callee
// postcondition, loop invariant at a head, branch knowledge). Such facts may only be used
// by obligations generated after them. Facts appended directly are global truths
// (distinctness of allocations, contents of literals, type invariants of fresh symbols,
// definitions of spec terms) and are available everywhere.
func (c *Ctx) markPathFact() {
	if c.pathFact == nil {
		c.pathFact = map[int]bool{}
	}
	c.pathFact[len(c.asserts)-1] = true
}

func (c *Ctx) addObl(kind, name, cond, src string) *Obl {
	if cond == "true" {
		// still count it: trivially discharged obligations are real obligations
	}
	name += c.inst
	c.oblSeq[name]++
	if n := c.oblSeq[name]; n > 1 {
		name = fmt.Sprintf("%s#%d", name, n)
	}
	o := &Obl{Name: name, Kind: kind, Fn: c.fnName(), Reach: c.curReach, Cond: cond, Src: src, Props: c.props, NAsserts: len(c.asserts)}
	if c.con != nil {
		o.Prefer = c.con.Opts["solver"]
	}
	c.obls = append(c.obls, o)
	return o
}

func (c *Ctx) fnName() string {
	if c.fn == nil {
		return c.con.Name
	}
	if c.fn.Pkg == nil {
		// instantiation of a generic function (or a closure of one): short qualified name
		n := shortenQualified(c.fn.RelString(nil))
		if tp := fnTypesPkg(c.fn); tp != nil {
			n = strings.TrimPrefix(n, path.Base(tp.Path())+".")
		}
		return n
	}
	return c.fn.RelString(fnTypesPkg(c.fn))
}

// ---------------------------------------------------------------- CFG helpers

func isBackEdge(from, to *ssa.BasicBlock) bool { return to.Dominates(from) }

func rpo(fn *ssa.Function) []*ssa.BasicBlock {
	seen := map[*ssa.BasicBlock]bool{}
	var post []*ssa.BasicBlock
	var dfs func(b *ssa.BasicBlock)
	dfs = func(b *ssa.BasicBlock) {
		seen[b] = true
		for _, s := range b.Succs {
			if !seen[s] && !isBackEdge(b, s) {
				dfs(s)
			}
		}
		post = append(post, b)
	}
	dfs(fn.Blocks[0])
	// topological order w.r.t. forward edges: reverse postorder of DFS ignoring back edges
	for i, j := 0, len(post)-1; i < j; i, j = i+1, j-1 {
		post[i], post[j] = post[j], post[i]
	}
	return post
}

func loopBody(head *ssa.BasicBlock) map[*ssa.BasicBlock]bool {
	body := map[*ssa.BasicBlock]bool{head: true}
	var stack []*ssa.BasicBlock
	for _, p := range head.Preds {
		if isBackEdge(p, head) && !body[p] {
			body[p] = true
			stack = append(stack, p)
		}
	}
	for len(stack) > 0 {
		b := stack[len(stack)-1]
		stack = stack[:len(stack)-1]
		for _, p := range b.Preds {
			if !body[p] {
				body[p] = true
				stack = append(stack, p)
			}
		}
	}
	return body
}

func isLoopHead(b *ssa.BasicBlock) bool {
	for _, p := range b.Preds {
		if isBackEdge(p, b) {
			return true
		}
	}
	return false
}

// rootAlloc follows FieldAddr/IndexAddr chains to a local Alloc
func rootAlloc(v ssa.Value) *ssa.Alloc {
	for {
		switch x := v.(type) {
		case *ssa.Alloc:
			return x
		case *ssa.FieldAddr:
			v = x.X
		case *ssa.IndexAddr:
			v = x.X
		default:
			return nil
		}
	}
}

// stableFreeVar: fv of closure fn is read-only inside fn, and in the enclosing function the
// captured variable is stored to exactly once (its initialisation) and otherwise only
// loaded or captured by read-only closures.
func stableFreeVar(fn *ssa.Function, fv *ssa.FreeVar) bool {
	if !readOnlyFreeVar(fv, 0) {
		return false
	}
	parent := fn.Parent()
	if parent == nil {
		return false
	}
	idx := -1
	for i, f := range fn.FreeVars {
		if f == fv {
			idx = i
		}
	}
	var bound ssa.Value
	for _, b := range parent.Blocks {
		for _, in := range b.Instrs {
			if mc, ok := in.(*ssa.MakeClosure); ok && mc.Fn == ssa.Value(fn) && idx >= 0 && idx < len(mc.Bindings) {
				if bound != nil && bound != mc.Bindings[idx] {
					return false
				}
				bound = mc.Bindings[idx]
			}
		}
	}
	switch b := bound.(type) {
	case *ssa.Alloc:
		refs := b.Referrers()
		if refs == nil {
			return false
		}
		stores := 0
		for _, r := range *refs {
			switch x := r.(type) {
			case *ssa.Store:
				if x.Addr != ssa.Value(b) {
					return false
				}
				stores++
			case *ssa.UnOp:
				if x.Op != token.MUL {
					return false
				}
			case *ssa.DebugRef:
			case *ssa.MakeClosure:
				cf, _ := x.Fn.(*ssa.Function)
				if cf == nil {
					return false
				}
				for bi, bb := range x.Bindings {
					if bb == ssa.Value(b) && (bi >= len(cf.FreeVars) || !readOnlyFreeVar(cf.FreeVars[bi], 0)) {
						return false
					}
				}
			default:
				return false
			}
		}
		return stores <= 1
	case *ssa.FreeVar:
		// captured through an intermediate closure
		return stableFreeVar(parent, b)
	}
	return false
}

// readOnlyFreeVar: the captured variable is only loaded inside the closure (and inside
// closures nested in it)
func readOnlyFreeVar(fv *ssa.FreeVar, depth int) bool {
	refs := fv.Referrers()
	if refs == nil || depth > 3 {
		return false
	}
	for _, r := range *refs {
		switch x := r.(type) {
		case *ssa.UnOp:
			if x.Op != token.MUL {
				return false
			}
		case *ssa.FieldAddr:
			if !onlyLoadedFrom(x, 0) {
				return false
			}
		case *ssa.IndexAddr:
			if !onlyLoadedFrom(x, 0) {
				return false
			}
		case *ssa.DebugRef:
		case *ssa.MakeClosure:
			cf, _ := x.Fn.(*ssa.Function)
			if cf == nil {
				return false
			}
			for bi, b := range x.Bindings {
				if b == ssa.Value(fv) && (bi >= len(cf.FreeVars) || !readOnlyFreeVar(cf.FreeVars[bi], depth+1)) {
					return false
				}
			}
		default:
			return false
		}
	}
	return true
}

// onlyLoadedFrom: the address value is only used to load (possibly through further
// field/index selection)
func onlyLoadedFrom(v ssa.Value, depth int) bool {
	refs := v.Referrers()
	if refs == nil || depth > 4 {
		return false
	}
	for _, r := range *refs {
		switch x := r.(type) {
		case *ssa.UnOp:
			if x.Op != token.MUL {
				return false
			}
		case *ssa.FieldAddr:
			if !onlyLoadedFrom(x, depth+1) {
				return false
			}
		case *ssa.IndexAddr:
			if _, isPtr := x.X.Type().Underlying().(*types.Pointer); !isPtr || !onlyLoadedFrom(x, depth+1) {
				return false
			}
		case *ssa.DebugRef:
		default:
			return false
		}
	}
	return true
}

// computeLocalExact: a non-heap Alloc is tracked exactly when its address only flows into
// FieldAddr / IndexAddr / Load / Store(addr) / DebugRef.
func (c *Ctx) computeLocalExact() {
	c.localExact = map[*ssa.Alloc]bool{}
	curWrittenOnce := false
	var ok func(v ssa.Value) bool
	ok = func(v ssa.Value) bool {
		refs := v.Referrers()
		if refs == nil {
			return false
		}
		for _, r := range *refs {
			switch x := r.(type) {
			case *ssa.FieldAddr:
				if !ok(x) {
					return false
				}
			case *ssa.IndexAddr:
				if _, isArr := x.X.Type().Underlying().(*types.Pointer); !isArr {
					return false
				}
				if !ok(x) {
					return false
				}
			case *ssa.UnOp:
				if x.Op != token.MUL {
					return false
				}
			case *ssa.Store:
				if x.Val == v {
					return false
				}
			case *ssa.DebugRef:
			case *ssa.Slice:
				// slicing an array inside a variable that is written once and then only read:
				// the slice is modelled as a snapshot of the array (see the Slice instruction)
				if !curWrittenOnce || x.X != v {
					return false
				}
			case *ssa.MakeClosure:
				// captured by a closure that only reads the variable
				cf, _ := x.Fn.(*ssa.Function)
				if cf == nil {
					return false
				}
				for bi, b := range x.Bindings {
					if b == v && (bi >= len(cf.FreeVars) || !readOnlyFreeVar(cf.FreeVars[bi], 0)) {
						return false
					}
				}
			default:
				return false
			}
		}
		return true
	}
	for _, b := range c.fn.Blocks {
		for _, in := range b.Instrs {
			if a, isA := in.(*ssa.Alloc); isA {
				curWrittenOnce = allocWrittenOnce(a)
				c.localExact[a] = ok(a)
			}
		}
	}
}

// ---------------------------------------------------------------- running a function

type edge struct{ from, to int }

func (c *Ctx) run() {
	fn := c.fn
	c.computeLocalExact()
	st := c.newInitialState()
	c.curReach = "true"
	// parameters
	c.paramVals = map[string]*Val{}
	for _, p := range fn.Params {
		c.stableNames = true
		v := c.freshVal(p.Type(), "p_"+p.Name())
		c.stableNames = false
		c.vals[p] = v
		c.paramVals[p.Name()] = v
	}
	for _, fv := range fn.FreeVars {
		c.stableNames = true
		v := c.freshVal(fv.Type(), "fv_"+fv.Name())
		c.stableNames = false
		c.vals[fv] = v
		c.paramVals[fv.Name()] = v
		// a captured variable that is written only once (its initialisation, before the
		// capture) and only read by the closures: its content is a fixed value during the
		// closure's run; contracts name that value by the variable's name
		if pt, ok := fv.Type().Underlying().(*types.Pointer); ok && stableFreeVar(fn, fv) {
			c.stableNames = true
			content := c.freshVal(pt.Elem(), "p_"+fv.Name())
			c.stableNames = false
			nv := *v
			nv.Loc = &Loc{Kind: LConst, Const: content}
			c.vals[fv] = &nv
			c.paramVals[fv.Name()] = content
			c.stableFV[fv.Name()] = true
		}
	}
	// captured variables are distinct variables: their cells do not alias and are not nil
	{
		var cells []string
		for _, fv := range fn.FreeVars {
			v := c.vals[fv]
			if v == nil || v.K != VScalar || (v.Loc != nil && v.Loc.Kind == LConst) {
				continue
			}
			if _, isPtr := fv.Type().Underlying().(*types.Pointer); !isPtr || c.scalarSort(fv.Type()) != "Int" {
				continue
			}
			c.asserts = append(c.asserts, sNot(sEq(v.S, "0")))
			for _, o := range cells {
				c.asserts = append(c.asserts, sNot(sEq(v.S, o)))
			}
			cells = append(cells, v.S)
		}
	}
	c.entry = st.clone()
	// requires
	for i, r := range c.con.Requires {
		env := c.baseEnv(st, c.entry)
		v := c.evalBool(r.E, env, fmt.Sprintf("requires %d", i))
		c.asserts = append(c.asserts, v)
	}
	for i, r := range c.con.Captured {
		if fn.Parent() == nil {
			c.err = fmt.Errorf("contract of %s: captured clause on a function that is not a closure", c.con.Name)
			return
		}
		env := c.baseEnv(st, c.entry)
		v := c.evalBool(r.E, env, fmt.Sprintf("captured %d", i))
		c.asserts = append(c.asserts, v)
	}
	for i, r := range c.con.Valid {
		env := c.baseEnv(st, c.entry)
		v := c.evalBool(r.E, env, fmt.Sprintf("valid %d", i))
		c.asserts = append(c.asserts, v)
		c.definesUsed["validity assumed on entry of "+c.con.Name+": "+r.Src] = true
	}
	// loop ordinals
	c.loopOrd = map[*ssa.BasicBlock]int{}
	n := 0
	for _, b := range fn.Blocks {
		if isLoopHead(b) {
			n++
			c.loopOrd[b] = n
		}
	}
	for k := range c.con.LoopInv {
		if k > n || k < 1 {
			c.err = fmt.Errorf("contract names loop %d but function has %d loops", k, n)
			return
		}
	}
	order := rpo(fn)
	reach := map[*ssa.BasicBlock]string{}
	exit := map[*ssa.BasicBlock]*State{}
	edgeCond := map[edge]string{}
	headEnv := map[*ssa.BasicBlock]*loopInfo{}
	for _, b := range order {
		var bst *State
		var r string
		if b.Index == 0 {
			bst, r = st, "true"
		} else {
			var mp []mergePred
			var mpIdx []int
			var rs []string
			for pi, p := range b.Preds {
				if isBackEdge(p, b) {
					continue
				}
				if _, done := exit[p]; !done {
					continue // unreachable predecessor (e.g. after panic)
				}
				ec := sAnd(reach[p], edgeCond[edge{p.Index, b.Index}])
				ec = c.defineBool("edge", ec)
				mp = append(mp, mergePred{ec, exit[p]})
				mpIdx = append(mpIdx, pi)
				rs = append(rs, ec)
			}
			if len(mp) == 0 {
				continue // unreachable
			}
			r = c.defineBool(fmt.Sprintf("reach_b%d", b.Index), sOr(rs...))
			if isLoopHead(b) {
				// obligations: invariant on entry edges
				li := c.enterLoop(b, mp, mpIdx, r)
				headEnv[b] = li
				bst = li.st
			} else {
				bst = c.mergeStates(mp)
				// phis
				for _, in := range b.Instrs {
					phi, ok := in.(*ssa.Phi)
					if !ok {
						break
					}
					var cur *Val
					for k := len(mp) - 1; k >= 0; k-- {
						c.curReach = mp[k].cond
						v := c.operand(phi.Edges[mpIdx[k]], mp[k].st)
						if cur == nil {
							cur = v
						} else {
							cur = c.iteVal(mp[k].cond, v, cur)
						}
					}
					c.vals[phi] = c.nameVal(cur, phi.Name())
					if phi.Comment != "" {
						c.dbg[phi.Comment] = append(c.dbg[phi.Comment], phi)
					}
				}
			}
		}
		reach[b] = r
		c.curReach = r
		c.execBlock(b, bst, edgeCond, headEnv, reach)
		if c.err != nil {
			return
		}
		// reach may have narrowed inside the block (inlined closure, range-over-func call,
		// no-return callee): successors are reached under the narrowed condition
		if c.curReach != "false" {
			reach[b] = c.curReach
		}
		exit[b] = bst
	}
}

func (c *Ctx) defineBool(hint, term string) string {
	if len(term) < 24 {
		return term
	}
	n := c.freshName(hint)
	c.declared[n] = true
	c.decls = append(c.decls, fmt.Sprintf("(define-fun %s () Bool %s)", n, term))
	return n
}

// nameVal introduces named definitions for large scalar terms
func (c *Ctx) nameVal(v *Val, hint string) *Val {
	if v == nil {
		return nil
	}
	switch v.K {
	case VScalar:
		if len(v.S) < 60 {
			return v
		}
		sort := c.scalarSort(v.T)
		if v.Wide {
			sort = c.scalarSort(theWide)
		}
		n := *v
		n.S = c.define(hint, sort, v.S)
		return &n
	case VSlice:
		n := *v
		n.Arr = c.define(hint+".arr", "Int", v.Arr)
		n.Off = c.define(hint+".off", c.idxSort(), v.Off)
		n.Len = c.define(hint+".len", c.idxSort(), v.Len)
		n.Cap = c.define(hint+".cap", c.idxSort(), v.Cap)
		return &n
	}
	return v
}

type loopInfo struct {
	head    *ssa.BasicBlock
	ord     int
	st      *State
	phis    []*ssa.Phi
	decHead *Val
	entryReach string
}

// enterLoop: assert invariant on entry edges, havoc loop-modified state, assume invariant.
func (c *Ctx) enterLoop(h *ssa.BasicBlock, mp []mergePred, mpIdx []int, r string) *loopInfo {
	ord := c.loopOrd[h]
	li := &loopInfo{head: h, ord: ord}
	for _, in := range h.Instrs {
		if phi, ok := in.(*ssa.Phi); ok {
			li.phis = append(li.phis, phi)
		} else {
			break
		}
	}
	pre := c.mergeStates(mp)
	// entry obligations: for each entry edge, invariant with phi := incoming value
	for k := range mp {
		c.curReach = mp[k].cond
		c.checkInvariant(h, ord, mpIdx[k], mp[k].st, "entry")
	}
	// havoc
	body := loopBody(h)
	st := pre.clone()
	havocAll, nonLocalStore, unknownStore := false, false, false
	var modPrefixes []string
	modLocals := map[*ssa.Alloc]bool{}
	// the effects of the loop body: its own instructions and, for calls of local closures that
	// will be inlined, the instructions of those closures
	var scanned []ssa.Instruction
	seenFn := map[*ssa.Function]bool{}
	var scanFn func(f *ssa.Function)
	scanInstr := func(in ssa.Instruction) {
		if call, ok := in.(*ssa.Call); ok {
			if ci := c.closureOf(call.Common().Value); ci != nil && c.canInline(ci.fn) && !seenFn[ci.fn] && c.P.CS.Funcs[fnKey(ci.fn)] == nil {
				scanFn(ci.fn)
				return
			}
		}
		scanned = append(scanned, in)
	}
	scanFn = func(f *ssa.Function) {
		seenFn[f] = true
		for _, b := range f.Blocks {
			for _, in := range b.Instrs {
				scanInstr(in)
			}
		}
	}
	for b := range body {
		for _, in := range b.Instrs {
			scanInstr(in)
		}
	}
	for _, in := range scanned {
		{
			switch x := in.(type) {
			case *ssa.Store:
				if a := rootAlloc(x.Addr); a != nil && c.localExact[a] {
					modLocals[a] = true
				} else {
					nonLocalStore = true
					// which heap maps can this store change? (scalar field of a heap struct /
					// scalar slice element): then only those maps are havocked at the head
					if pfx, ok := staticStorePrefixes(x.Addr); ok {
						modPrefixes = append(modPrefixes, pfx...)
					} else {
						unknownStore = true
					}
				}
			case *ssa.Call:
				if !c.callIsPure(x.Common()) {
					havocAll = true
				}
			case *ssa.Defer:
				if !c.callIsPure(x.Common()) {
					havocAll = true
				}
			case *ssa.Go, *ssa.MapUpdate, *ssa.Send, *ssa.Select:
				havocAll = true
			case *ssa.Next:
				if x.IsString {
					// the hidden position of a string iterator advances
					nonLocalStore = true
					modPrefixes = append(modPrefixes, "RP|str")
				}
			}
		}
	}
	if havocAll {
		c.havocHeap(st, c.isImmutableMap)
	} else if nonLocalStore && unknownStore {
		c.havocHeap(st, c.isGhostMap)
	} else if nonLocalStore {
		keep := func(name string) bool {
			if c.isGhostMap(name) {
				return true
			}
			for _, p := range modPrefixes {
				if name == p || strings.HasPrefix(name, p+".") {
					return false
				}
			}
			return true
		}
		c.havocHeap(st, keep)
	}
	for a := range modLocals {
		if _, ok := st.locals[a]; ok {
			c.curReach = r
			st.locals[a] = c.freshVal(a.Type().Underlying().(*types.Pointer).Elem(), "loop_"+a.Comment)
		}
	}
	for _, phi := range li.phis {
		v := c.freshVal(phi.Type(), fmt.Sprintf("%s_%s", phi.Name(), phi.Comment))
		c.vals[phi] = v
		if phi.Comment != "" {
			c.dbg[phi.Comment] = append(c.dbg[phi.Comment], phi)
		}
	}
	li.st = st
	c.curReach = r
	// assume invariant
	for _, inv := range c.con.LoopInv[ord] {
		env := c.baseEnv(st, c.entry)
		c.bindLoopNames(env, h, nil, -1, st)
		c.assumeHere(c.evalBool(inv.E, env, "loop invariant"))
	}
	if d := c.con.LoopDec[ord]; d != nil {
		env := c.baseEnv(st, c.entry)
		c.bindLoopNames(env, h, nil, -1, st)
		li.decHead = c.evalExpr(d.E, env)
	}
	return li
}

// bindLoopNames binds phi comment names: to the phi values themselves (edge<0) or to
// the incoming values along pred edge i.
func (c *Ctx) bindLoopNames(env *Env, h *ssa.BasicBlock, from *State, edgeIdx int, st *State) {
	for _, in := range h.Instrs {
		phi, ok := in.(*ssa.Phi)
		if !ok {
			break
		}
		if phi.Comment == "" {
			continue
		}
		var v *Val
		if edgeIdx < 0 {
			v = c.vals[phi]
		} else {
			v = c.operand(phi.Edges[edgeIdx], from)
		}
		env.names[phi.Comment] = v
		env.names[phi.Name()] = v
		if phi.Comment == "rangeint.iter" {
			// `for i := range n` over an integer: the loop is entered with the test already
			// passed; contracts name the iteration counter `rangeiter`
			env.names["rangeiter"] = v
		}
	}
}

func (c *Ctx) checkInvariant(h *ssa.BasicBlock, ord, predIdx int, st *State, which string) {
	for i, inv := range c.con.LoopInv[ord] {
		env := c.baseEnv(st, c.entry)
		c.bindLoopNames(env, h, st, predIdx, st)
		cond := c.evalBool(inv.E, env, "loop invariant")
		label := inv.Label
		if label == "" {
			label = fmt.Sprint(i + 1)
		}
		o := c.addObl("F", fmt.Sprintf("%s.loop%d.inv[%s].%s", c.fnName(), ord, label, which), cond, inv.Src)
		if len(inv.Props) > 0 {
			o.Props = inv.Props
		}
	}
}

func (c *Ctx) backEdge(from *ssa.BasicBlock, h *ssa.BasicBlock, st *State, li *loopInfo, cond string) {
	save := c.curReach
	c.curReach = c.defineBool("back", sAnd(c.curReach, cond))
	predIdx := -1
	for i, p := range h.Preds {
		if p == from {
			predIdx = i
		}
	}
	c.checkInvariant(h, li.ord, predIdx, st, "preserved")
	// "loop N iteration e": e must hold at the end of every iteration (names are those of
	// the iteration just finished)
	for i, cl := range c.con.LoopIter[li.ord] {
		// in an iteration clause old(e) is e at the beginning of the iteration just finished
		// (the loop-head state), for variables that live in a local cell
		env := c.baseEnv(st, li.st)
		// loop variables (phis of the head): their plain names mean the values the iteration
		// hands to the next one, old(name) the values it started with
		c.bindLoopNames(env, h, st, predIdx, st)
		oldEnv := &Env{c: c, names: map[string]*Val{}}
		c.bindLoopNames(oldEnv, h, nil, -1, st)
		env.oldNames = oldEnv.names
		label := cl.Label
		if label == "" {
			label = fmt.Sprint(i + 1)
		}
		o := c.addObl("F", fmt.Sprintf("%s.loop%d.iteration[%s]", c.fnName(), li.ord, label), c.evalBool(cl.E, env, "loop iteration"), cl.Src)
		if len(cl.Props) > 0 {
			o.Props = cl.Props
		}
	}
	if d := c.con.LoopDec[li.ord]; d != nil && li.decHead != nil {
		env := c.baseEnv(st, c.entry)
		c.bindLoopNames(env, h, st, predIdx, st)
		nv := c.evalExpr(d.E, env)
		var cond string
		if c.mode == "int" || nv.Wide {
			if c.mode == "int" {
				cond = sAnd("(<= 0 "+li.decHead.S+")", "(< "+nv.S+" "+li.decHead.S+")")
			} else {
				cond = sAnd("(bvsle "+c.intConst(big.NewInt(0), theWide)+" "+li.decHead.S+")", "(bvslt "+nv.S+" "+li.decHead.S+")")
			}
		} else {
			_, signed, _ := intInfo(nv.T)
			if signed {
				cond = sAnd("(bvsle "+c.intConst(big.NewInt(0), nv.T)+" "+li.decHead.S+")", "(bvslt "+nv.S+" "+li.decHead.S+")")
			} else {
				cond = "(bvult " + nv.S + " " + li.decHead.S + ")"
			}
		}
		c.addObl("F", fmt.Sprintf("%s.loop%d.decreases", c.fnName(), li.ord), cond, d.Src)
	}
	c.curReach = save
}

// ---------------------------------------------------------------- operands

func (c *Ctx) operand(v ssa.Value, st *State) *Val {
	if x, ok := c.vals[v]; ok {
		return x
	}
	switch x := v.(type) {
	case *ssa.Const:
		return c.constVal(x)
	case *ssa.Global:
		name := quoteSym("glob|" + x.Pkg.Pkg.Path() + "." + x.Name())
		c.declare(name, "Int")
		if !c.declared[name+"!nz"] {
			c.declared[name+"!nz"] = true
			c.asserts = append(c.asserts, sNot(sEq(name, "0")))
		}
		val := &Val{K: VScalar, T: x.Type(), S: name, Loc: &Loc{Kind: LMap, Prefix: "GL|" + x.Pkg.Pkg.Path() + "." + x.Name(), Keys: nil, T: x.Type().Underlying().(*types.Pointer).Elem()}}
		c.vals[v] = val
		return val
	case *ssa.Function:
		name := quoteSym("fn|" + x.String())
		c.declare(name, "Int")
		if !c.declared[name+"!nz"] {
			c.declared[name+"!nz"] = true
			c.asserts = append(c.asserts, sNot(sEq(name, "0")))
		}
		val := &Val{K: VScalar, T: x.Type(), S: name}
		c.vals[v] = val
		c.closures[v] = &closureInfo{fn: x}
		return val
	case *ssa.Builtin:
		return &Val{K: VScalar, T: x.Type(), S: "0"}
	}
	// value defined in a block not yet processed (should not happen in RPO) -> fresh
	c.drop("operand-before-def:" + v.Name())
	nv := c.freshVal(v.Type(), "undef_"+v.Name())
	c.vals[v] = nv
	return nv
}

func (c *Ctx) constVal(x *ssa.Const) *Val {
	t := x.Type()
	if x.Value == nil {
		return c.zeroVal(t)
	}
	switch x.Value.Kind() {
	case constant.Bool:
		if constant.BoolVal(x.Value) {
			return &Val{K: VScalar, T: t, S: "true"}
		}
		return &Val{K: VScalar, T: t, S: "false"}
	case constant.Int:
		bi, _ := new(big.Int).SetString(x.Value.ExactString(), 10)
		if _, _, ok := intInfo(t); ok {
			return &Val{K: VScalar, T: t, S: c.intConst(bi, t)}
		}
		return c.freshVal(t, "const")
	case constant.String:
		return &Val{K: VScalar, T: t, S: c.strLit(constant.StringVal(x.Value))}
	}
	c.drop("const-kind")
	return c.freshVal(t, "const")
}

// ---------------------------------------------------------------- blocks

func (c *Ctx) execBlock(b *ssa.BasicBlock, st *State, edgeCond map[edge]string, heads map[*ssa.BasicBlock]*loopInfo, reach map[*ssa.BasicBlock]string) {
	c.curBlk = b
	for _, in := range b.Instrs {
		if c.curReach == "false" {
			for _, s := range b.Succs {
				if _, ok := edgeCond[edge{b.Index, s.Index}]; !ok {
					edgeCond[edge{b.Index, s.Index}] = "false"
				}
			}
			return
		}
		switch x := in.(type) {
		case *ssa.Phi:
			// handled at block entry
		case *ssa.If:
			cv := c.operand(x.Cond, st)
			t, f := b.Succs[0], b.Succs[1]
			c.setEdge(b, t, cv.S, st, edgeCond, heads)
			c.setEdge(b, f, sNot(cv.S), st, edgeCond, heads)
		case *ssa.Jump:
			c.setEdge(b, b.Succs[0], "true", st, edgeCond, heads)
		case *ssa.Return:
			c.doReturn(x, st)
		case *ssa.Panic:
			if (c.con.Sweep && len(c.con.SweepKinds) == 0) || sweepAll {
				c.addObl("S", c.fnName()+".panic.unreachable", "false", "explicit panic")
			}
			c.curReach = "false"
		default:
			c.execInstr(in, st)
		}
	}
}

func (c *Ctx) setEdge(from, to *ssa.BasicBlock, cond string, st *State, edgeCond map[edge]string, heads map[*ssa.BasicBlock]*loopInfo) {
	if isBackEdge(from, to) {
		li := heads[to]
		if li != nil {
			c.backEdge(from, to, st, li, cond)
		}
		return
	}
	k := edge{from.Index, to.Index}
	if old, ok := edgeCond[k]; ok {
		edgeCond[k] = sOr(old, cond)
	} else {
		edgeCond[k] = cond
	}
}

func (c *Ctx) doReturn(x *ssa.Return, st *State) {
	if c.hasDefer {
		// deferred calls already applied at RunDefers
	}
	var results []*Val
	for _, r := range x.Results {
		if a := lateReadVar(x, r); a != nil {
			// `return z, f(&z)`: Go leaves the order of the variable read and the call
			// unspecified; go/ssa reads first, the gc compiler (the one that builds the
			// node) reads plain variables after the calls of the statement. Follow gc.
			if p, ok := c.vals[a]; ok {
				results = append(results, c.load(p, a.Type().Underlying().(*types.Pointer).Elem(), st))
				c.gcOrder++
				continue
			}
		}
		results = append(results, c.operand(r, st))
	}
	c.retReach = append(c.retReach, c.curReach)
	env := c.baseEnv(st, c.entry)
	c.bindResults(env, c.fn.Signature, results, c.con.Names)
	for i, e := range c.con.Ensures {
		label := e.Label
		if label == "" {
			label = fmt.Sprint(i + 1)
		}
		cond := c.evalBool(e.E, env, "ensures")
		o := c.addObl("F", fmt.Sprintf("%s.post[%s]", c.fnName(), label), cond, e.Src)
		if len(e.Props) > 0 {
			o.Props = e.Props
		}
	}
	if c.con.AssignsSet {
		c.checkFrame(st)
	}
}

func (c *Ctx) bindResults(env *Env, sig *types.Signature, results []*Val, names []string) {
	res := sig.Results()
	for i, v := range results {
		env.names[fmt.Sprintf("res%d", i)] = v
		if i < res.Len() {
			if n := res.At(i).Name(); n != "" && n != "_" {
				env.names[n] = v
			}
		}
		if i < len(names) {
			env.names[names[i]] = v
		}
	}
	if n := len(results); n > 0 {
		last := results[n-1]
		if last.T != nil && types.Identical(last.T, types.Universe.Lookup("error").Type()) {
			if _, taken := env.names["err"]; !taken || true {
				env.names["err"] = last
			}
		}
		if n == 1 {
			env.names["result"] = results[0]
		}
	}
}

// checkFrame: every heap map that changed since entry must be listed in assigns.
func (c *Ctx) checkFrame(st *State) {
	names := make([]string, 0, len(c.heapSorts))
	for n := range c.heapSorts {
		names = append(names, n)
	}
	sort.Strings(names)
	for _, n := range names {
		if strings.HasPrefix(n, "GL|") {
			continue
		}
		if c.assignsAllows(c.con, n) {
			continue
		}
		now := c.lookup(st, n)
		was := c.lookup(c.entry, n)
		c.addObl("F", fmt.Sprintf("%s.frame[%s]", c.fnName(), shortMapName(n)), c.frameEq(n, now, was), "assigns "+strings.Join(c.con.Assigns, ", "))
	}
}

// frameEq: map unchanged, except at objects allocated by this function
func (c *Ctx) frameEq(name, now, was string) string {
	if now == was {
		return "true"
	}
	if len(c.allocRefs) == 0 {
		return sEq(now, was)
	}
	// forall r not freshly allocated: now[r] == was[r]
	var ne []string
	for _, a := range c.allocRefs {
		ne = append(ne, sNot(sEq("r", a)))
	}
	return "(forall ((r Int)) " + sImp(sAnd(ne...), sEq("(select "+now+" r)", "(select "+was+" r)")) + ")"
}

func shortMapName(n string) string {
	// F|pkg/path.T|i -> T.i ; G|name -> name
	parts := strings.Split(n, "|")
	if len(parts) >= 2 {
		p := parts[1]
		if i := strings.LastIndex(p, "/"); i >= 0 {
			p = p[i+1:]
		}
		return strings.Join(append([]string{parts[0], p}, parts[2:]...), "|")
	}
	return n
}

func (c *Ctx) assignsAllows(con *Contract, mapName string) bool {
	if !con.AssignsSet {
		return true
	}
	for _, a := range con.Assigns {
		if a == "*" {
			return true
		}
		if c.assignMatches(a, mapName) {
			return true
		}
	}
	return false
}

// assigns entries: ghost field name, Type.field, []elemtype, *
func (c *Ctx) assignMatches(a, mapName string) bool {
	parts := strings.Split(mapName, "|")
	switch parts[0] {
	case "G":
		return parts[1] == a
	case "F":
		// a = T.field or pkg.T.field
		i := strings.LastIndex(a, ".")
		if i < 0 {
			return false
		}
		tn, fld := a[:i], a[i+1:]
		if !typeNameMatches(parts[1], tn) {
			return false
		}
		t := c.P.typeByKey[parts[1]]
		if t == nil {
			return false
		}
		st, ok := t.Underlying().(*types.Struct)
		if !ok {
			return false
		}
		var idx int
		fmt.Sscan(strings.SplitN(parts[2], ".", 2)[0], &idx)
		return idx < st.NumFields() && st.Field(idx).Name() == fld
	case "A":
		return a == "[]"+lastType(parts[1]) || a == "[]*"
	case "C":
		return a == "*"+lastType(parts[1])
	}
	return false
}

func lastType(k string) string {
	if i := strings.LastIndex(k, "/"); i >= 0 {
		k = k[i+1:]
	}
	if i := strings.LastIndex(k, "."); i >= 0 {
		return k[i+1:]
	}
	return k
}

func typeNameMatches(key, name string) bool {
	name = strings.TrimPrefix(name, "*")
	if key == name {
		return true
	}
	if strings.HasSuffix(key, "."+name) || strings.HasSuffix(key, "/"+name) {
		return true
	}
	return false
}

// lateReadVar: the result operand r of return x is a load of a local variable that go/ssa
// placed before a call of the same block which receives the variable's address (and only
// the return uses the loaded value): returns the variable.
func lateReadVar(x *ssa.Return, r ssa.Value) *ssa.Alloc {
	ld, ok := r.(*ssa.UnOp)
	if !ok || ld.Op != token.MUL || ld.Block() != x.Block() {
		return nil
	}
	a, ok := ld.X.(*ssa.Alloc)
	if !ok {
		return nil
	}
	if refs := ld.Referrers(); refs != nil {
		for _, u := range *refs {
			if _, dbg := u.(*ssa.DebugRef); !dbg && u != ssa.Instruction(x) {
				return nil
			}
		}
	}
	seen := false
	for _, in := range x.Block().Instrs {
		if in == ssa.Instruction(ld) {
			seen = true
			continue
		}
		if !seen {
			continue
		}
		if ci, ok := in.(*ssa.Call); ok {
			for _, arg := range ci.Common().Args {
				if arg == ssa.Value(a) {
					return a
				}
			}
		}
	}
	return nil
}

// addRelevantAxioms: the axioms of the property (assumed facts about ghost and spec
// functions; listed in the evidence) are added to a function's verification conditions
// when they talk about a ghost/spec function that these conditions use. Called after
// the body has been executed; iterates because an axiom can bring in further symbols.
func (c *Ctx) addRelevantAxioms(st *State) {
	done := map[*Axiom]bool{}
	for changed := true; changed; {
		changed = false
		for _, ax := range c.P.CS.Axioms {
			if ax.Lemma || done[ax] {
				continue
			}
			use := false
			for _, pr := range c.props {
				if hasProp(ax.Props, pr) {
					use = true
				}
			}
			if !use || !c.mentionsDeclared(ax.E) {
				continue
			}
			done[ax] = true
			changed = true
			env := &Env{c: c, names: map[string]*Val{}, noLocals: true, pkgPath: c.con.Pkg}
			env.st = st
			env.old = st
			c.axioms = append(c.axioms, c.evalBool(ax.E, env, "axiom "+ax.Name))
		}
	}
}

func (c *Ctx) mentionsDeclared(e *Expr) bool {
	if e == nil {
		return false
	}
	if e.Op == "call" {
		if _, ok := c.P.CS.Ghosts[e.Name]; ok && c.declared[quoteSym("G!"+e.Name)] {
			return true
		}
	}
	for _, a := range e.Args {
		if c.mentionsDeclared(a) {
			return true
		}
	}
	return false
}

func fnKey(f *ssa.Function) string {
	k, _, _ := fnIDs(f)
	return k
}
