package main

// Go maps: a map value is a reference m; its content lives in two heap maps per map type,
//   MD|<maptype>        : Array Int (Array KS Bool)   the key set (domain)
//   MV|<maptype><leaf>  : Array Int (Array KS VS)     the values, one map per value leaf
// KS is the key's scalar sort, or Int through an injective key-id function for composite
// keys (struct / array keys). Iteration order and len() are not modelled.

import (
	"fmt"
	"go/types"
	"strings"

	"golang.org/x/tools/go/ssa"
)

func (c *Ctx) mapKeySort(mt *types.Map) string {
	if s := c.scalarSort(mt.Key()); s != "" && !strings.HasPrefix(s, "(Array") {
		return s
	}
	return "Int"
}

// mapKeyTerm turns a key value into a term of the key sort
func (c *Ctx) mapKeyTerm(mt *types.Map, k *Val) string {
	if s := c.scalarSort(mt.Key()); s != "" && !strings.HasPrefix(s, "(Array") {
		if k.Lit != nil {
			return c.coerceTo(k, mt.Key()).S
		}
		return k.S
	}
	// composite key: injective id function over the leaves
	var terms, sorts []string
	c.flatten(k, &terms, &sorts)
	fn := quoteSym("keyid|" + typeKey(mt.Key()))
	if !c.declared[fn] {
		c.declareFun(fn, sorts, "Int")
		// injectivity through per-leaf inverse functions
		var vars, args []string
		for i, s := range sorts {
			vars = append(vars, fmt.Sprintf("(k%d %s)", i, s))
			args = append(args, fmt.Sprintf("k%d", i))
		}
		app := sApp(fn, args...)
		var eqs []string
		for i, s := range sorts {
			inv := quoteSym(fmt.Sprintf("keyid_inv%d|%s", i, typeKey(mt.Key())))
			c.declareFun(inv, []string{"Int"}, s)
			eqs = append(eqs, fmt.Sprintf("(= (%s %s) k%d)", inv, app, i))
		}
		c.axioms = append(c.axioms, fmt.Sprintf("(forall (%s) (! %s :pattern (%s)))", strings.Join(vars, " "), sAnd(eqs...), app))
	}
	return sApp(fn, terms...)
}

func mapDomName(mt types.Type) string { return "MD|" + typeKey(mt) }
func mapValName(mt types.Type) string { return "MV|" + typeKey(mt) }

func (c *Ctx) mapDomSort(mt *types.Map) string {
	return "(Array Int (Array " + c.mapKeySort(mt) + " Bool))"
}

func (c *Ctx) mapHas(st *State, mt *types.Map, m, key string) string {
	name := mapDomName(mt)
	c.registerMap(name, c.mapDomSort(mt))
	return "(select (select " + c.lookup(st, name) + " " + m + ") " + key + ")"
}

func (c *Ctx) mapGet(st *State, mt *types.Map, m, key string, quiet bool) *Val {
	vt := mt.Elem()
	ks := c.mapKeySort(mt)
	var leaves []string
	c.typeSorts(vt, &leaves)
	terms := make([]string, len(leaves))
	for i, ls := range leaves {
		name := fmt.Sprintf("%s|%d", mapValName(mt), i)
		c.registerMap(name, "(Array Int (Array "+ks+" "+ls+"))")
		terms[i] = "(select (select " + c.lookup(st, name) + " " + m + ") " + key + ")"
	}
	pos := 0
	v := c.unflatten(vt, terms, &pos)
	if !quiet {
		c.assumeTypeInv(v)
	}
	return v
}

func (c *Ctx) mapSet(st *State, mt *types.Map, m, key string, v *Val, present bool) {
	ks := c.mapKeySort(mt)
	dn := mapDomName(mt)
	c.registerMap(dn, c.mapDomSort(mt))
	dm := c.lookup(st, dn)
	p := "true"
	if !present {
		p = "false"
	}
	st.over[dn] = c.define("md", c.mapDomSort(mt), "(store "+dm+" "+m+" (store (select "+dm+" "+m+") "+key+" "+p+"))")
	if !present || v == nil {
		return
	}
	var terms, leaves []string
	c.flatten(v, &terms, nil)
	c.typeSorts(mt.Elem(), &leaves)
	for i, ls := range leaves {
		name := fmt.Sprintf("%s|%d", mapValName(mt), i)
		sort := "(Array Int (Array " + ks + " " + ls + "))"
		c.registerMap(name, sort)
		vm := c.lookup(st, name)
		st.over[name] = c.define("mv", sort, "(store "+vm+" "+m+" (store (select "+vm+" "+m+") "+key+" "+terms[i]+"))")
	}
}

func (c *Ctx) mapInit(x *ssa.MakeMap, st *State) {
	mt, ok := x.Type().Underlying().(*types.Map)
	if !ok {
		return
	}
	m := c.vals[x].S
	dn := mapDomName(mt)
	c.registerMap(dn, c.mapDomSort(mt))
	dm := c.lookup(st, dn)
	inner := "(Array " + c.mapKeySort(mt) + " Bool)"
	st.over[dn] = c.define("md", c.mapDomSort(mt), "(store "+dm+" "+m+" ((as const "+inner+") false))")
}

func (c *Ctx) mapUpdate(x *ssa.MapUpdate, st *State) {
	mt, ok := x.Map.Type().Underlying().(*types.Map)
	if !ok {
		c.drop("map-update")
		return
	}
	m := c.operand(x.Map, st)
	k := c.operand(x.Key, st)
	v := c.operand(x.Value, st)
	c.sweepObl("map.nonnil", sNot(sEq(m.S, "0")), "assignment to entry in possibly nil map")
	c.mapSet(st, mt, m.S, c.mapKeyTerm(mt, k), v, true)
}

func (c *Ctx) mapLookup(x *ssa.Lookup, st *State) {
	mt := x.X.Type().Underlying().(*types.Map)
	m := c.operand(x.X, st)
	k := c.operand(x.Index, st)
	key := c.mapKeyTerm(mt, k)
	has := sAnd(sNot(sEq(m.S, "0")), c.mapHas(st, mt, m.S, key))
	has = c.define("mhas", "Bool", has)
	val := c.iteVal(has, c.mapGet(st, mt, m.S, key, false), c.zeroVal(mt.Elem()))
	if x.CommaOk {
		c.set(x, &Val{K: VTuple, T: x.Type(), F: []*Val{val, {K: VScalar, T: types.Typ[types.Bool], S: has}}})
		return
	}
	c.set(x, val)
}

func (c *Ctx) mapDelete(args []*Val, st *State) {
	mt, ok := args[0].T.Underlying().(*types.Map)
	if !ok {
		c.drop("map-delete")
		return
	}
	c.mapSet(st, mt, args[0].S, c.mapKeyTerm(mt, args[1]), nil, false)
}

// ---------------------------------------------------------------- provenance of call results

func (c *Ctx) provID(short string) int {
	if c.provIDs == nil {
		c.provIDs = map[string]int{}
	}
	if id, ok := c.provIDs[short]; ok {
		return id
	}
	id := len(c.provIDs) + 1
	c.provIDs[short] = id
	return id
}

// tagProv marks the scalar leaves of a call result with the callee's provenance id
func (c *Ctx) tagProv(v *Val, tag string) *Val {
	switch v.K {
	case VScalar, VSlice:
		// (a slice returned by a call carries the provenance on its header value)
		if v.Prov == tag {
			return v
		}
		n := *v
		n.Prov = tag
		return &n
	case VTuple:
		n := *v
		n.F = make([]*Val, len(v.F))
		for i, f := range v.F {
			n.F[i] = c.tagProv(f, tag)
		}
		return &n
	}
	return v
}

// provMatches: the term "value's provenance is a call to a callee matching pattern"
func (c *Ctx) provMatches(v *Val, pattern string) string {
	if v == nil || v.Prov == "" {
		return "false"
	}
	// ids are handed out lazily: make sure every known callee name is considered; names
	// first seen later get larger ids and cannot be the provenance of an existing value
	var alts []string
	for short, id := range c.provIDs {
		if matchAny([]string{pattern}, short) {
			alts = append(alts, sEq(v.Prov, fmt.Sprint(id)))
		}
	}
	return sOr(alts...)
}
