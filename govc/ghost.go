package main

import "go/types"

// ghostMapSort: the SMT sort of the heap map behind a ghost field / ghost var:
// (Array <sort of its key parameter> <sort of its value>); ghost vars are keyed by Int 0.
func (c *Ctx) ghostMapSort(g *GhostDecl) string {
	pkg := ""
	if c.fn != nil && c.fn.Pkg != nil {
		pkg = fnPkgPath(c.fn)
	} else if c.con != nil {
		pkg = c.con.Pkg
	}
	env := &Env{c: c, pkgPath: pkg}
	ks := "Int"
	if len(g.Params) >= 1 {
		if pt := c.resolveType(g.Params[0].Type, env); pt != nil {
			if s := c.scalarSort(pt); s != "" {
				ks = s
			}
		}
	}
	vs := "Bool"
	var rt types.Type = c.resolveType(g.Ret, env)
	if rt != nil {
		vs = c.scalarSort(rt)
	}
	return "(Array " + ks + " " + vs + ")"
}
