package main

import (
	"go/types"

	"golang.org/x/tools/go/ssa"
)

// staticStorePrefix: the heap map (prefix) a store through addr can change, when that is
// statically evident: a scalar-ish field of a heap struct, or a scalar-ish slice/array
// element. Stores of whole structs / arrays and stores through opaque pointers are not.
func staticStorePrefix(addr ssa.Value) (string, bool) {
	switch x := addr.(type) {
	case *ssa.FieldAddr:
		pt, ok := x.X.Type().Underlying().(*types.Pointer)
		if !ok {
			return "", false
		}
		st, ok := pt.Elem().Underlying().(*types.Struct)
		if !ok {
			return "", false
		}
		ft := st.Field(x.Field).Type()
		if isStruct(ft) {
			return "", false
		}
		if _, isArr := ft.Underlying().(*types.Array); isArr {
			return "", false
		}
		return fieldPrefix(pt.Elem(), x.Field), true
	case *ssa.IndexAddr:
		var et types.Type
		switch u := x.X.Type().Underlying().(type) {
		case *types.Slice:
			et = u.Elem()
		case *types.Pointer:
			if at, ok := u.Elem().Underlying().(*types.Array); ok {
				et = at.Elem()
			}
		}
		if et == nil || isStruct(et) {
			return "", false
		}
		if _, isArr := et.Underlying().(*types.Array); isArr {
			return "", false
		}
		return elemPrefix(et), true
	case *ssa.FreeVar, *ssa.Alloc, *ssa.Parameter:
		// a variable cell (captured variable of a closure, escaping local, pointer parameter)
		// holding a scalar: only the cell map of that type can change
		if pt, ok := x.Type().Underlying().(*types.Pointer); ok {
			et := pt.Elem()
			if isStruct(et) {
				return "", false
			}
			switch et.Underlying().(type) {
			case *types.Array, *types.Slice, *types.Map, *types.Interface, *types.Signature:
				return "", false
			}
			return cellPrefix(et), true
		}
	}
	return "", false
}

// staticStorePrefixes: like staticStorePrefix, and also for stores of whole struct values
// (struct-typed slice elements, struct fields, struct cells): every field map of the struct,
// recursively. ok=false when the set of changed maps cannot be named statically.
func staticStorePrefixes(addr ssa.Value) ([]string, bool) {
	if p, ok := staticStorePrefix(addr); ok {
		return []string{p}, true
	}
	pt, ok := addr.Type().Underlying().(*types.Pointer)
	if !ok || !isStruct(pt.Elem()) {
		return nil, false
	}
	switch addr.(type) {
	case *ssa.FieldAddr, *ssa.IndexAddr, *ssa.Alloc, *ssa.FreeVar, *ssa.Parameter:
	default:
		return nil, false
	}
	var out []string
	if !structStorePrefixes(pt.Elem(), &out, 0) {
		return nil, false
	}
	return out, true
}

func structStorePrefixes(t types.Type, out *[]string, depth int) bool {
	st, ok := t.Underlying().(*types.Struct)
	if !ok || depth > 4 {
		return false
	}
	for i := 0; i < st.NumFields(); i++ {
		ft := st.Field(i).Type()
		if isStruct(ft) {
			if !structStorePrefixes(ft, out, depth+1) {
				return false
			}
			continue
		}
		if at, isArr := ft.Underlying().(*types.Array); isArr {
			if isStruct(at.Elem()) {
				return false
			}
			*out = append(*out, elemPrefix(at.Elem()))
			continue
		}
		*out = append(*out, fieldPrefix(t, i))
	}
	return true
}
