package main

import (
	"go/types"

	"golang.org/x/tools/go/ssa"
)

// staticStorePrefix: the heap map (prefix) a store through addr can change, when that is
// statically evident: a scalar-ish field of a heap struct, or a scalar-ish slice/array
// element. Stores of whole structs / arrays and stores through opaque pointers are not.
func staticStorePrefix(addr ssa.Value) (string, bool) {
	switch x := addr.(type) {
	case *ssa.FieldAddr:
		pt, ok := x.X.Type().Underlying().(*types.Pointer)
		if !ok {
			return "", false
		}
		st, ok := pt.Elem().Underlying().(*types.Struct)
		if !ok {
			return "", false
		}
		ft := st.Field(x.Field).Type()
		if isStruct(ft) {
			return "", false
		}
		if _, isArr := ft.Underlying().(*types.Array); isArr {
			return "", false
		}
		return fieldPrefix(pt.Elem(), x.Field), true
	case *ssa.IndexAddr:
		var et types.Type
		switch u := x.X.Type().Underlying().(type) {
		case *types.Slice:
			et = u.Elem()
		case *types.Pointer:
			if at, ok := u.Elem().Underlying().(*types.Array); ok {
				et = at.Elem()
			}
		}
		if et == nil || isStruct(et) {
			return "", false
		}
		if _, isArr := et.Underlying().(*types.Array); isArr {
			return "", false
		}
		return elemPrefix(et), true
	}
	return "", false
}
