package main

// callrules ("every call from these callers to these callees requires ...") and frame scans.

import (
	"math/big"
	"fmt"
	"go/token"
	"go/types"
	"sort"
	"strings"

	"golang.org/x/tools/go/ssa"
)

// expandBraces: "(*Server).{Get,Head}" -> ["(*Server).Get","(*Server).Head"]
func expandBraces(p string) []string {
	i := strings.Index(p, "{")
	j := strings.Index(p, "}")
	if i < 0 || j < i {
		return []string{p}
	}
	var out []string
	for _, alt := range strings.Split(p[i+1:j], ",") {
		out = append(out, expandBraces(p[:i]+strings.TrimSpace(alt)+p[j+1:])...)
	}
	return out
}

func matchAny(pats []string, s string) bool {
	for _, p := range pats {
		for _, q := range expandBraces(p) {
			if globMatch(q, s) {
				return true
			}
		}
	}
	return false
}

// callerMatches: rule caller patterns are "pkgpath::name-pattern" or just a name pattern
// (then the rule's own package). Closures match through their outermost parent too.
func (r *CallRule) callerMatches(fn *ssa.Function, rulePkg string) bool {
	// Only the function itself is matched: a closure (F$1) is a caller only when a pattern
	// names it (e.g. by a trailing *). Closures handed out as callbacks run inside a callee
	// that is itself subject to the rule; closures called directly are inlined into F.
	names := []string{}
	if fn.Pkg != nil {
		names = append(names, fnPkgPath(fn)+"::"+fn.RelString(fnTypesPkg(fn)))
	} else if o := fn.Origin(); o != nil && o != fn && o.Pkg != nil {
		// an instantiation of a generic function is named like the generic function
		names = append(names, fnPkgPath(o)+"::"+o.RelString(o.Pkg.Pkg))
	}
	// "!pattern" entries exclude callers (exemptions are thus explicit in the contract)
	for _, pat := range r.Callers {
		if !strings.HasPrefix(pat, "!") {
			continue
		}
		for _, q := range expandBraces(pat[1:]) {
			if !strings.Contains(q, "::") {
				q = rulePkg + "::" + q
			}
			for _, n := range names {
				if globMatch(q, n) {
					return false
				}
			}
		}
	}
	for _, pat := range r.Callers {
		if strings.HasPrefix(pat, "!") {
			continue
		}
		if strings.HasPrefix(pat, "implements:") {
			if fn.Pkg != nil && fn.Pkg.Pkg.Path() == rulePkg && implementsMethod(fn, strings.TrimPrefix(pat, "implements:")) {
				return true
			}
			continue
		}
		for _, q := range expandBraces(pat) {
			if !strings.Contains(q, "::") {
				q = rulePkg + "::" + q
			}
			for _, n := range names {
				if globMatch(q, n) {
					return true
				}
			}
		}
	}
	return false
}

// implementsMethod: fn is a method (not a closure) of a type that implements the named
// interface (pkgname.Iface, resolved among the packages the function's package imports),
// and the method's name is in that interface's method set. The set of callers is thus
// generated from the program: a new handler becomes a caller without editing the contract.
func implementsMethod(fn *ssa.Function, ifaceName string) bool {
	if fn.Parent() != nil || fn.Signature.Recv() == nil || fn.Pkg == nil {
		return false
	}
	i := strings.LastIndex(ifaceName, ".")
	if i < 0 {
		return false
	}
	pkgName, name := ifaceName[:i], ifaceName[i+1:]
	var cands []*types.Interface
	var find func(p *types.Package, depth int)
	seen := map[*types.Package]bool{}
	find = func(p *types.Package, depth int) {
		if seen[p] || depth > 2 {
			return
		}
		seen[p] = true
		if p.Name() == pkgName || strings.HasSuffix(p.Path(), "/"+pkgName) || p.Path() == pkgName {
			if o, ok := p.Scope().Lookup(name).(*types.TypeName); ok {
				if x, ok := o.Type().Underlying().(*types.Interface); ok {
					cands = append(cands, x)
				}
			}
		}
		for _, imp := range p.Imports() {
			find(imp, depth+1)
		}
	}
	find(fnTypesPkg(fn), 0)
	rt := fn.Signature.Recv().Type()
	for _, it := range cands {
		if !types.Implements(rt, it) {
			if _, isPtr := rt.(*types.Pointer); isPtr || !types.Implements(types.NewPointer(rt), it) {
				continue
			}
		}
		for k := 0; k < it.NumMethods(); k++ {
			if it.Method(k).Name() == fn.Name() {
				return true
			}
		}
	}
	return false
}

// applyRuleEnsures: scoped definitional postconditions attached by callrules to callees
func (c *Ctx) applyRuleEnsures(cc *ssa.CallCommon, res *Val, st *State, pre *State) {
	id := c.identifyCallee(cc)
	for _, r := range c.activeRules {
		if len(r.Ensures) == 0 || !matchAny(r.Callees, id.short) || matchAny(r.Except, id.short) {
			continue
		}
		// ghost fields the rule says these calls change get a fresh version; old(...) in the
		// rule's clauses refers to the state just before the call
		for _, a := range r.Assigns {
			name := "G|" + a
			if g, ok := c.P.CS.Ghosts[a]; ok {
				c.registerMap(name, c.ghostMapSort(g))
			}
			if _, ok := c.heapSorts[name]; ok {
				st.over[name] = c.fresh1(name+"@r", c.heapSorts[name])
				continue
			}
			// a real location (T.field, []T, *T): the matched calls may change it even when
			// they are otherwise treated as effect-free (e.g. waiting for worker goroutines)
			var hit []string
			for hn := range c.heapSorts {
				if !c.isGhostMap(hn) && c.assignMatches(a, hn) {
					hit = append(hit, hn)
				}
			}
			sort.Strings(hit)
			for _, hn := range hit {
				c.havocMap(st, hn)
			}
		}
		env := c.baseEnv(st, pre)
		var args []*Val
		if cc.IsInvoke() {
			args = append(args, c.operand(cc.Value, st))
		}
		for _, a := range cc.Args {
			args = append(args, c.operand(a, st))
		}
		k := 0
		if cc.IsInvoke() || (id.sig != nil && id.sig.Recv() != nil) {
			if len(args) > 0 {
				env.names["self"] = args[0]
				k = 1
			}
		}
		for i := k; i < len(args); i++ {
			env.names[fmt.Sprintf("a%d", i-k)] = args[i]
		}
		if id.dynamic {
			env.names["fnval"] = c.operand(cc.Value, st)
		}
		if res != nil {
			if res.K == VTuple {
				c.bindResults(env, id.sig, res.F, nil)
			} else {
				c.bindResults(env, id.sig, []*Val{res}, nil)
			}
		}
		c.ruleHits[r.Name]++
		for _, e := range r.Ensures {
			c.assumeHere(c.evalBool(e.E, env, "callrule ensures "+r.Name))
			c.definesUsed["callrule "+r.Name+" on "+id.short+": "+e.Src] = true
		}
	}
}

func (c *Ctx) applyCallRules(id calleeID, site string, args []*Val, cc *ssa.CallCommon, st *State) {
	for _, r := range c.activeRules {
		if len(r.Requires) == 0 || !matchAny(r.Callees, id.short) {
			continue
		}
		if matchAny(r.Except, id.short) {
			continue
		}
		env := c.baseEnv(st, c.entry)
		k := 0
		if cc.IsInvoke() || (id.sig != nil && id.sig.Recv() != nil) {
			if len(args) > 0 {
				env.names["self"] = args[0]
				k = 1
			}
		}
		for i := k; i < len(args); i++ {
			env.names[fmt.Sprintf("a%d", i-k)] = args[i]
		}
		if id.dynamic {
			env.names["fnval"] = c.operand(cc.Value, st)
		}
		c.ruleHits[r.Name]++
		for i, rq := range r.Requires {
			label := rq.Label
			if label == "" {
				label = fmt.Sprint(i + 1)
			}
			cond := c.evalBool(rq.E, env, "callrule "+r.Name)
			o := c.addObl("G", fmt.Sprintf("%s.%s.rule[%s.%s]", c.fnName(), site, r.Name, label), cond, rq.Src)
			o.Props = r.Props
		}
	}
}

// chanFieldName: "T.field" when the channel operand is loaded from that struct field
func chanFieldName(ch ssa.Value) string {
	if ld, ok := ch.(*ssa.UnOp); ok && ld.Op == token.MUL {
		if fa, ok := ld.X.(*ssa.FieldAddr); ok {
			return fieldName(fa)
		}
	}
	return ""
}

// applyChanRules: a send on a channel held in a struct field is an event callrules can
// name as callee "chansend(T.field)"; a0 is the value sent. Receives that are select cases
// are events too: "chanrecv(T.field)", a0 is the value received. `taken` says when the send
// really happens (a select case: the select answered its index). The rule's requires are
// obligations under `taken`; its defines/ensures are assumed under `taken`, and the ghost
// fields it assigns keep their value otherwise.
func (c *Ctx) applyChanRules(kind, chName string, val *Val, taken string, st *State) {
	callee := kind + "(" + chName + ")"
	c.callSeq[callee]++
	site := fmt.Sprintf("%s[%s#%d]", strings.TrimPrefix(kind, "chan"), chName, c.callSeq[callee])
	for _, r := range c.activeRules {
		if !matchAny(r.Callees, callee) || matchAny(r.Except, callee) {
			continue
		}
		c.ruleHits[r.Name]++
		env := c.baseEnv(st, c.entry)
		env.names["a0"] = val
		for i, rq := range r.Requires {
			label := rq.Label
			if label == "" {
				label = fmt.Sprint(i + 1)
			}
			cond := c.evalBool(rq.E, env, "callrule "+r.Name)
			o := c.addObl("G", fmt.Sprintf("%s.%s.rule[%s.%s]", c.fnName(), site, r.Name, label), sImp(taken, cond), rq.Src)
			o.Props = r.Props
		}
		if len(r.Ensures) == 0 {
			continue
		}
		pre := st.clone()
		for _, a := range r.Assigns {
			name := "G|" + a
			g, ok := c.P.CS.Ghosts[a]
			if !ok {
				c.specErr("callrule %s on a channel send may only assign ghost fields (got %s)", r.Name, a)
				continue
			}
			c.registerMap(name, c.ghostMapSort(g))
			oldm := c.lookup(st, name)
			st.over[name] = c.fresh1(name+"@s", c.heapSorts[name])
			if taken != "true" {
				c.assumeHere(sImp(sNot(taken), sEq(st.over[name], oldm)))
			}
		}
		env2 := c.baseEnv(st, pre)
		env2.names["a0"] = val
		for _, e := range r.Ensures {
			c.assumeHere(sImp(taken, c.evalBool(e.E, env2, "callrule ensures "+r.Name)))
			c.definesUsed["callrule "+r.Name+" on "+callee+": "+e.Src] = true
		}
	}
}

// ---------------------------------------------------------------- frame scan

// effect patterns:
//   close(T.field)            builtin close on a channel loaded from field T.field
//   call(pkg.Func)            static call to a function (short qualified name, glob)
//   store(T.field)            store to field T.field
type frameHit struct {
	Fn  string
	Pos string
}

func (p *Program) scanFrame(fr *FrameRule) (violations []frameHit, sites int) {
	sp := p.SSAPkgs[fr.Pkg]
	if sp == nil {
		return nil, 0
	}
	kind, arg, _ := strings.Cut(strings.TrimSuffix(fr.Effect, ")"), "(")
	var fns []*ssa.Function
	for f := range allFuncsOfPkg(p, sp) {
		fns = append(fns, f)
	}
	sort.Slice(fns, func(i, j int) bool { return fns[i].String() < fns[j].String() })
	for _, f := range fns {
		name := f.RelString(sp.Pkg)
		allowed := false
		for g := f; g != nil; g = g.Parent() {
			if matchAny(fr.OnlyIn, g.RelString(sp.Pkg)) {
				allowed = true
			}
		}
		for _, b := range f.Blocks {
			for _, in := range b.Instrs {
				hit := false
				switch x := in.(type) {
				case *ssa.Call:
					hit = frameCallHit(kind, arg, x.Common())
				case *ssa.Defer:
					hit = frameCallHit(kind, arg, x.Common())
				case *ssa.Go:
					hit = frameCallHit(kind, arg, x.Common())
				case *ssa.Store:
					if kind == "store" {
						if fa, ok := x.Addr.(*ssa.FieldAddr); ok {
							hit = fieldName(fa) == arg
						}
					}
				}
				if hit {
					sites++
					if !allowed {
						violations = append(violations, frameHit{name, p.Prog.Fset.Position(in.Pos()).String()})
					}
				}
			}
		}
	}
	return
}

func fieldName(fa *ssa.FieldAddr) string {
	st := fa.X.Type().Underlying().(*types.Pointer).Elem()
	return lastType(typeKey(st)) + "." + st.Underlying().(*types.Struct).Field(fa.Field).Name()
}

func frameCallHit(kind, arg string, cc *ssa.CallCommon) bool {
	switch kind {
	case "close":
		b, ok := cc.Value.(*ssa.Builtin)
		if !ok || b.Name() != "close" || len(cc.Args) != 1 {
			return false
		}
		if ld, ok := cc.Args[0].(*ssa.UnOp); ok && ld.Op == token.MUL {
			if fa, ok := ld.X.(*ssa.FieldAddr); ok {
				return fieldName(fa) == arg
			}
		}
		return false
	case "call":
		if f := cc.StaticCallee(); f != nil {
			_, short, _ := fnIDs(f)
			return globMatch(arg, short)
		}
		if cc.IsInvoke() {
			tn := types.TypeString(cc.Value.Type(), func(p *types.Package) string { return p.Path() })
			return globMatch(arg, shortenQualified("("+tn+")."+cc.Method.Name()))
		}
	}
	return false
}

func allFuncsOfPkg(p *Program, sp *ssa.Package) map[*ssa.Function]bool {
	out := map[*ssa.Function]bool{}
	var add func(f *ssa.Function)
	add = func(f *ssa.Function) {
		if f == nil || out[f] {
			return
		}
		out[f] = true
		for _, a := range f.AnonFuncs {
			add(a)
		}
	}
	for _, m := range sp.Members {
		switch x := m.(type) {
		case *ssa.Function:
			add(x)
		case *ssa.Type:
			for _, t := range []types.Type{x.Type(), types.NewPointer(x.Type())} {
				ms := p.Prog.MethodSets.MethodSet(t)
				for i := 0; i < ms.Len(); i++ {
					f := p.Prog.MethodValue(ms.At(i))
					if f != nil && f.Pkg == sp && f.Synthetic == "" {
						add(f)
					}
				}
			}
		}
	}
	return out
}

// initGhostFields: ghost fields of a freshly allocated object start at their zero value
// (a ghost field belongs to objects of the type its parameter names, e.g. closed(b *syncBatch))
func (c *Ctx) initGhostFields(st *State, ref string, elem types.Type) {
	n, ok := elem.(*types.Named)
	if !ok {
		return
	}
	for _, g := range c.P.CS.Ghosts {
		if g.Kind != "field" || len(g.Params) != 1 {
			continue
		}
		pt := strings.TrimPrefix(g.Params[0].Type, "*")
		if i := strings.LastIndex(pt, "."); i >= 0 {
			pt = pt[i+1:]
		}
		if pt != n.Obj().Name() {
			continue
		}
		// the parameter type must be this very type, not a type of the same name elsewhere
		if gt := c.resolveType(strings.TrimPrefix(g.Params[0].Type, "*"), &Env{c: c, pkgPath: fnPkgPath(c.fn)}); gt != nil && !types.Identical(gt, elem) {
			continue
		} else if gt == nil {
			if q := strings.TrimPrefix(g.Params[0].Type, "*"); strings.Contains(q, ".") && n.Obj().Pkg() != nil && !strings.HasPrefix(q, n.Obj().Pkg().Name()+".") {
				continue
			}
		}
		rt := c.resolveType(g.Ret, &Env{c: c, pkgPath: fnPkgPath(c.fn)})
		if rt == nil {
			continue
		}
		name := "G|" + g.Name
		sort := c.ghostMapSort(g)
		c.registerMap(name, sort)
		zero := c.zeroVal(rt).S
		if _, isW := rt.(*wideType); isW {
			zero = c.intConst(big.NewInt(0), rt)
		}
		st.over[name] = c.define("gz", sort, "(store "+c.lookup(st, name)+" "+ref+" "+zero+")")
	}
}
