package main

import (
	"strconv"
	"go/token"
	"fmt"
	"go/types"
	"math/big"
	"path"
	"regexp"
	"strings"

	"golang.org/x/tools/go/ssa"
)

// calleeNames returns the identification of a call target:
//   key: "pkgpath::RelName" for functions with an ssa.Function, display: short qualified name
//   e.g. fmt.Errorf, (*uint256.Int).SetFromDecimal, (io.Reader).Read
type calleeID struct {
	fn      *ssa.Function
	key     string // repo contract key (pkgpath::name)
	short   string // pkgname-qualified name
	full    string // full path qualified name
	iface   bool
	builtin string
	dynamic bool
	sig     *types.Signature
	recvT   types.Type
}

func shortQual(p *types.Package) string {
	if p == nil {
		return ""
	}
	return p.Name()
}

func fnIDs(f *ssa.Function) (key, short, full string) {
	if f.Pkg != nil {
		key = f.Pkg.Pkg.Path() + "::" + f.RelString(f.Pkg.Pkg)
	} else if f.Object() != nil && f.Object().Pkg() != nil {
		key = f.Object().Pkg().Path() + "::" + f.RelString(f.Object().Pkg())
	}
	full = f.RelString(nil)
	short = shortenQualified(full)
	return
}

var rePkgPath = regexp.MustCompile(`[A-Za-z0-9_.\-~]+(/[A-Za-z0-9_.\-~]+)+`)

// shortenQualified turns "(*github.com/a/b/c.T).M" into "(*c.T).M" (last path element; vN suffixes skipped)
func shortenQualified(s string) string {
	return rePkgPath.ReplaceAllStringFunc(s, func(m string) string {
		// m = github.com/a/b/c.T  (the .T... part belongs to the last element)
		dir, last := path.Split(m)
		_ = dir
		// last = "c.T" or "v2.T"
		name, rest, _ := strings.Cut(last, ".")
		if len(name) > 1 && name[0] == 'v' && strings.Trim(name[1:], "0123456789") == "" {
			// version suffix: use previous element
			d := strings.TrimSuffix(dir, "/")
			name = path.Base(d)
		}
		if rest == "" {
			return name
		}
		return name + "." + rest
	})
}

func (c *Ctx) identifyCallee(cc *ssa.CallCommon) calleeID {
	var id calleeID
	id.sig = cc.Signature()
	if cc.IsInvoke() {
		id.iface = true
		rt := cc.Value.Type()
		id.recvT = rt
		tn := types.TypeString(rt, func(p *types.Package) string { return p.Path() })
		id.full = "(" + tn + ")." + cc.Method.Name()
		id.short = shortenQualified(id.full)
		if n, ok := rt.(*types.Named); ok && n.Obj().Pkg() != nil {
			id.key = n.Obj().Pkg().Path() + "::(" + n.Obj().Name() + ")." + cc.Method.Name()
		} else if a, ok := rt.(*types.Alias); ok && a.Obj().Pkg() != nil {
			id.key = a.Obj().Pkg().Path() + "::(" + a.Obj().Name() + ")." + cc.Method.Name()
		}
		return id
	}
	if b, ok := cc.Value.(*ssa.Builtin); ok {
		id.builtin = b.Name()
		id.short = b.Name()
		return id
	}
	if f := cc.StaticCallee(); f != nil {
		id.fn = f
		if f.Origin() != nil && false {
			id.fn = f
		}
		id.key, id.short, id.full = fnIDs(f)
		if o := f.Origin(); o != nil {
			// generic instance: contracts are keyed by the origin's name
			id.key, id.short, id.full = fnIDs(o)
		}
		return id
	}
	if ci := c.closureOf(cc.Value); ci != nil {
		id.fn = ci.fn
		id.key, id.short, id.full = fnIDs(ci.fn)
		return id
	}
	id.dynamic = true
	id.short = "dynamic:" + cc.Value.Name()
	// calls through a struct field of function type / a parameter: name them by origin
	id.short = "dynamic:" + describeFuncValue(cc.Value)
	return id
}

func describeFuncValue(v ssa.Value) string {
	switch x := v.(type) {
	case *ssa.UnOp:
		if fa, ok := x.X.(*ssa.FieldAddr); ok {
			st := fa.X.Type().Underlying().(*types.Pointer).Elem()
			return lastType(typeKey(st)) + "." + st.Underlying().(*types.Struct).Field(fa.Field).Name()
		}
		if fv, ok := x.X.(*ssa.FreeVar); ok {
			return "freevar." + fv.Name()
		}
		// element of a slice that was loaded from a struct field: T.field[]
		if ia, ok := x.X.(*ssa.IndexAddr); ok {
			if ld, ok := ia.X.(*ssa.UnOp); ok {
				if fa, ok := ld.X.(*ssa.FieldAddr); ok {
					st := fa.X.Type().Underlying().(*types.Pointer).Elem()
					return lastType(typeKey(st)) + "." + st.Underlying().(*types.Struct).Field(fa.Field).Name() + "[]"
				}
			}
		}
	case *ssa.Field:
		st := x.X.Type()
		return lastType(typeKey(st)) + "." + st.Underlying().(*types.Struct).Field(x.Field).Name()
	case *ssa.Parameter:
		return "param." + x.Name()
	case *ssa.FreeVar:
		return "freevar." + x.Name()
	}
	return v.Name()
}

func (c *Ctx) findContract(id calleeID) *Contract {
	if id.key != "" {
		if con, ok := c.P.CS.Funcs[id.key]; ok {
			return con
		}
	}
	if id.short != "" {
		if con, ok := c.P.CS.Deps[id.short]; ok {
			c.usedDeps[id.short] = true
			return con
		}
	}
	return nil
}

func (c *Ctx) callIsPure(cc *ssa.CallCommon) bool {
	id := c.identifyCallee(cc)
	if id.builtin != "" {
		switch id.builtin {
		case "len", "cap", "min", "max", "panic", "print", "println", "ssa:wrapnilchk", "real", "imag", "complex":
			return true
		}
		return false
	}
	if con := c.findContract(id); con != nil {
		return con.Pure || c.rulePure(id.short)
	}
	return c.P.isPureName(id.short) || c.rulePure(id.short)
}

// rulePure: a callrule active in this function declares the matched callees effect-free
// on the modelled heap (an assumption, reported in the evidence)
func (c *Ctx) rulePure(short string) bool {
	for _, r := range c.activeRules {
		if r.Pure && matchAny(r.Callees, short) && !matchAny(r.Except, short) {
			c.definesUsed["callrule "+r.Name+": calls to "+short+" are assumed not to change the modelled heap"] = true
			if len(r.Requires) == 0 && len(r.Ensures) == 0 {
				c.ruleHits[r.Name]++
			}
			return true
		}
	}
	return false
}

// call executes a call instruction: builtin semantics, contract application or havoc.
func (c *Ctx) call(in ssa.Instruction, cc *ssa.CallCommon, st *State, deferred bool) *Val {
	var pre *State
	if len(c.activeRules) > 0 {
		pre = st.clone()
	}
	res := c.callInner(in, cc, st, deferred)
	if res != nil {
		// provenance of call results (spec function resultOf)
		id := c.identifyCallee(cc)
		if id.builtin == "" {
			tag := fmt.Sprint(c.provID(id.short))
			res = c.tagProv(res, tag)
		}
	}
	if !deferred && len(c.activeRules) > 0 && c.curReach != "false" {
		c.applyRuleEnsures(cc, res, st, pre)
	}
	return res
}

func (c *Ctx) callInner(in ssa.Instruction, cc *ssa.CallCommon, st *State, deferred bool) *Val {
	id := c.identifyCallee(cc)
	var args []*Val
	if cc.IsInvoke() {
		args = append(args, c.operand(cc.Value, st))
	}
	for _, a := range cc.Args {
		args = append(args, c.operand(a, st))
	}
	var rt types.Type = id.sig.Results()
	if id.sig.Results().Len() == 1 {
		rt = id.sig.Results().At(0).Type()
	}
	if v, ok := in.(ssa.Value); ok && id.builtin != "" {
		rt = v.Type()
	}
	if id.builtin != "" {
		return c.builtin(id.builtin, cc, args, rt, st)
	}
	c.callSeq[id.short]++
	seq := c.callSeq[id.short]
	site := fmt.Sprintf("call[%s#%d]", id.short, seq)
	if deferred {
		site = fmt.Sprintf("defer[%s#%d]", id.short, seq)
	}
	// intrinsics
	if v, done := c.intrinsic(id, cc, args, rt, st); done {
		c.applyCallRules(id, site, args, cc, st)
		return v
	}
	c.applyCallRules(id, site, args, cc, st)
	con := c.findContract(id)
	// directly called local closure without a contract: inline
	if con == nil && id.fn != nil && id.fn.Parent() != nil && !deferred {
		if ci := c.closureOf(cc.Value); ci != nil && c.canInline(ci.fn) {
			return c.inlineClosure(ci, args, st, rt)
		}
	}
	if con == nil && id.dynamic && !deferred && len(cc.Args) == 1 {
		// range-over-func: seq(body) where body is the synthetic yield closure
		if ci, ok := c.closures[cc.Args[0]]; ok && isRangeFuncBody(ci.fn) && c.canInline(ci.fn) {
			c.rangeFuncCall(ci, st)
			return nil
		}
	}
	if con == nil {
		return c.havocCall(id, args, rt, st, deferred)
	}
	// ---- contract application
	env := c.calleeEnv(id, con, args, st)
	var preAll []string
	for i, r := range con.Requires {
		label := r.Label
		if label == "" {
			label = fmt.Sprint(i + 1)
		}
		cond := c.evalBool(r.E, env, "callee requires")
		preAll = append(preAll, cond)
		o := c.addObl("G", fmt.Sprintf("%s.%s.pre[%s]", c.fnName(), site, label), cond, r.Src)
		// a callee precondition belongs to the properties of the callee's contract as well
		if len(r.Props) > 0 {
			o.Props = append(append([]string{}, c.props...), r.Props...)
		} else {
			o.Props = append(append([]string{}, c.props...), con.Props...)
		}
	}
	pre := st.clone()
	// effects
	if deferred {
		// a deferred call runs at function exit: its precondition is demanded where it is
		// registered (conservative), its effect is part of the RunDefers havoc
		return nil
	}
	if !con.AssignsSet && c.rulePure(id.short) {
		// a callrule of the caller assumes these calls leave the modelled heap alone
	} else if con.AssignsSet {
		// `assigns elems(p)`: only the elements of the array behind the slice parameter p
		// change (all other arrays of that element type are framed)
		for _, a := range con.Assigns {
			if !strings.HasPrefix(a, "elems(") || !strings.HasSuffix(a, ")") {
				continue
			}
			pv := env.names[strings.TrimSuffix(strings.TrimPrefix(a, "elems("), ")")]
			if pv == nil || pv.K != VSlice {
				c.err = fmt.Errorf("contract of %s: %s does not name a slice parameter", id.short, a)
				continue
			}
			et := pv.T.Underlying().(*types.Slice).Elem()
			for _, l := range c.leavesOf(et) {
				name := elemPrefix(et) + l.suffix
				sort := "(Array Int (Array " + c.idxSort() + " " + l.sort + "))"
				c.registerMap(name, sort)
				m := c.lookup(st, name)
				inner := c.fresh1("elems", "(Array "+c.idxSort()+" "+l.sort+")")
				st.over[name] = c.define("hw", sort, "(store "+m+" "+pv.Arr+" "+inner+")")
			}
		}
		for name := range c.heapSorts {
			if !c.assignsAllowsCallee(con, name) {
				continue
			}
			c.havocMap(st, name)
		}
		// maps not yet registered but assigned: remember to havoc on first use
		c.lateHavoc(st, con)
	} else {
		c.havocHeap(st, c.isGhostMap)
	}
	res := c.freshVal(rt, "r_"+sanitize(id.short))
	c.notePriorRefs(res)
	env.st = st
	env.old = pre
	var results []*Val
	if rt2, ok := rt.(*types.Tuple); ok {
		_ = rt2
		results = res.F
	} else {
		results = []*Val{res}
	}
	c.bindResults(env, id.sig, results, con.Names)
	preCond := c.defineBool("pre", sAnd(preAll...))
	for _, e := range con.Ensures {
		// a contract promises its postcondition only when its precondition held.
		// A clause that talks about the callee's locals cannot be stated at the call site:
		// it is simply not assumed there (it is still proved in the callee's body).
		saveErr := c.err
		t := c.evalBool(e.E, env, "callee ensures")
		if saveErr == nil && c.err != nil {
			c.err = nil
			continue
		}
		c.assumeHere(sImp(preCond, t))
	}
	for _, e := range con.Defines {
		c.assumeHere(sImp(preCond, c.evalBool(e.E, env, "callee defines")))
		c.definesUsed[con.Name+": "+e.Src] = true
	}
	if con.Opts["noreturn"] == "true" {
		c.curReach = "false"
	}
	return res
}

func sanitize(s string) string {
	return strings.Map(func(r rune) rune {
		if r >= 'a' && r <= 'z' || r >= 'A' && r <= 'Z' || r >= '0' && r <= '9' || r == '_' {
			return r
		}
		return '_'
	}, s)
}

// assignsAllowsCallee: for call sites, an `assigns` list names what MAY change; everything else is framed.
func (c *Ctx) assignsAllowsCallee(con *Contract, mapName string) bool {
	if strings.HasPrefix(mapName, "GL|") {
		return false
	}
	for _, a := range con.Assigns {
		if a == "*" {
			return !c.isGhostMap(mapName)
		}
		if c.assignMatches(a, mapName) {
			return true
		}
	}
	return false
}

// lateHavoc: heap maps named in assigns that have not been touched yet get a fresh version
// when first used after this call. Implemented by a havoc epoch that keeps everything
// except assigned names.
func (c *Ctx) lateHavoc(st *State, con *Contract) {
	if len(con.Assigns) == 0 {
		return
	}
	keep := func(name string) bool { return !c.assignsAllowsCallee(con, name) }
	prev := &State{epoch: st.epoch, over: st.over}
	st.epoch = &Epoch{id: c.newEpochID(), kind: 1, prev: prev, keep: keep, memo: map[string]string{}}
	st.over = map[string]string{}
}

func (c *Ctx) havocCall(id calleeID, args []*Val, rt types.Type, st *State, deferred bool) *Val {
	pure := c.P.isPureName(id.short) || c.rulePure(id.short)
	if !pure && !deferred {
		c.havocHeap(st, c.isGhostMap)
		c.havocCount++
	}
	if id.dynamic {
		c.drop("dynamic-call")
	}
	c.uncontracted[id.short]++
	hv := c.freshVal(rt, "r_"+sanitize(id.short))
	c.notePriorRefs(hv)
	return hv
}

// calleeEnv binds parameter names of the callee to argument values.
func (c *Ctx) calleeEnv(id calleeID, con *Contract, args []*Val, st *State) *Env {
	env := &Env{names: map[string]*Val{}, st: st, old: st, c: c, noLocals: true, pkgPath: con.Pkg}
	sig := id.sig
	k := 0
	if sig.Recv() != nil || id.iface {
		if len(args) > 0 {
			env.names["self"] = args[0]
			env.names["recv"] = args[0]
			if sig.Recv() != nil && sig.Recv().Name() != "" && sig.Recv().Name() != "_" {
				env.names[sig.Recv().Name()] = args[0]
			}
			k = 1
		}
	}
	// ssa.Function params give the most reliable names
	if id.fn != nil && len(id.fn.Params) == len(args) {
		for i, p := range id.fn.Params {
			env.names[p.Name()] = args[i]
		}
	}
	// closure bindings / free variables
	for i := 0; i < sig.Params().Len() && k+i < len(args); i++ {
		env.names[fmt.Sprintf("a%d", i)] = args[k+i]
		if n := sig.Params().At(i).Name(); n != "" && n != "_" {
			env.names[n] = args[k+i]
		}
	}
	return env
}

// ---------------------------------------------------------------- builtins & intrinsics

func (c *Ctx) builtin(name string, cc *ssa.CallCommon, args []*Val, rt types.Type, st *State) *Val {
	switch name {
	case "len":
		a := args[0]
		switch {
		case a.K == VSlice:
			return &Val{K: VScalar, T: rt, S: a.Len}
		case isString(a.T):
			return &Val{K: VScalar, T: rt, S: sApp(c.strLenFn(), a.S)}
		}
		if at, ok := a.T.Underlying().(*types.Array); ok {
			return &Val{K: VScalar, T: rt, S: c.idxConst(at.Len())}
		}
		if pt, ok := a.T.Underlying().(*types.Pointer); ok {
			if at, ok := pt.Elem().Underlying().(*types.Array); ok {
				return &Val{K: VScalar, T: rt, S: c.idxConst(at.Len())}
			}
		}
		if _, ok := a.T.Underlying().(*types.Map); ok {
			return c.mapLen(a, rt, st)
		}
		v := c.freshVal(rt, "len")
		c.assumeHere(c.idxLe(c.idxConst(0), v.S))
		return v
	case "cap":
		a := args[0]
		if a.K == VSlice {
			return &Val{K: VScalar, T: rt, S: a.Cap}
		}
		v := c.freshVal(rt, "cap")
		c.assumeHere(c.idxLe(c.idxConst(0), v.S))
		return v
	case "min", "max":
		cur := args[0]
		for _, b := range args[1:] {
			save := c.con.Sweep
			lt := c.binopNoObl(tokLSS, cur, b)
			_ = save
			if name == "min" {
				cur = c.iteVal(lt.S, cur, b)
			} else {
				cur = c.iteVal(lt.S, b, cur)
			}
		}
		n := *cur
		n.T = rt
		return &n
	case "copy":
		return c.copyBuiltin(args, rt, st)
	case "append":
		return c.appendBuiltin(cc, args, rt, st)
	case "panic":
		if (c.con.Sweep && len(c.con.SweepKinds) == 0) || sweepAll {
			c.addObl("S", c.fnName()+".panic.unreachable", "false", "explicit panic")
		}
		c.curReach = "false"
		return nil
	case "delete":
		c.mapDelete(args, st)
		return nil
	case "clear":
		c.drop("clear")
		c.havocHeap(st, c.isGhostMap)
		return nil
	case "close":
		c.drop("close-chan")
		return nil
	case "print", "println", "recover":
		if name == "recover" {
			c.drop("recover")
			return c.freshVal(rt, "recover")
		}
		return nil
	case "ssa:wrapnilchk":
		return args[0]
	}
	c.drop("builtin:" + name)
	if rt == nil {
		return nil
	}
	return c.freshVal(rt, name)
}

func (c *Ctx) copyBuiltin(args []*Val, rt types.Type, st *State) *Val {
	dst, src := args[0], args[1]
	var srcLen string
	if src.K == VSlice {
		srcLen = src.Len
	} else {
		srcLen = sApp(c.strLenFn(), src.S)
	}
	n := c.define("copyn", c.idxSort(), sIte(c.idxLt(dst.Len, srcLen), dst.Len, srcLen))
	et := dst.T.Underlying().(*types.Slice).Elem()
	if isStruct(et) {
		c.drop("copy-struct-elems")
		c.havocHeap(st, c.isGhostMap)
		return &Val{K: VScalar, T: rt, S: n}
	}
	for _, l := range c.leavesOf(et) {
		name := elemPrefix(et) + l.suffix
		sort := "(Array Int (Array " + c.idxSort() + " " + l.sort + "))"
		c.registerMap(name, sort)
		m := c.lookup(st, name)
		inner := "(Array " + c.idxSort() + " " + l.sort + ")"
		na := c.fresh1("copyarr", inner)
		oldDst := "(select " + m + " " + dst.Arr + ")"
		var srcAt func(i string) string
		if src.K == VSlice {
			srcAt = func(i string) string {
				return "(select (select " + m + " " + src.Arr + ") " + c.idxAdd(src.Off, i) + ")"
			}
		} else {
			srcAt = func(i string) string { return sApp(c.strByteFn(), src.S, i) }
		}
		// forall j: na[j] = (dst.off <= j < dst.off+n) ? src[j-dst.off] : old[j]
		var in string
		rel := c.idxSub("j", dst.Off)
		if c.mode == "int" {
			in = sAnd("(<= "+dst.Off+" j)", "(< j "+c.idxAdd(dst.Off, n)+")")
		} else {
			in = sAnd("(bvule "+dst.Off+" j)", "(bvult "+rel+" "+n+")")
		}
		if !c.abstractCopyContent() {
			c.assumeHere(fmt.Sprintf("(forall ((j %s)) (! (= (select %s j) (ite %s %s (select %s j))) :pattern ((select %s j))))", c.idxSort(), na, in, srcAt(rel), oldDst, na))
		}
		st.over[name] = c.define("hw", sort, "(store "+m+" "+dst.Arr+" "+na+")")
	}
	return &Val{K: VScalar, T: rt, S: n}
}

func (c *Ctx) appendBuiltin(cc *ssa.CallCommon, args []*Val, rt types.Type, st *State) *Val {
	s := args[0]
	if len(args) < 2 {
		return s
	}
	add := args[1]
	et := rt.Underlying().(*types.Slice).Elem()
	var addLen string
	if add.K == VSlice {
		addLen = add.Len
	} else { // append([]byte, string...)
		addLen = sApp(c.strLenFn(), add.S)
	}
	newLen := c.define("applen", c.idxSort(), c.idxAdd(s.Len, addLen))
	fits := c.idxLe(newLen, s.Cap)
	// result: in place when it fits, else a fresh array holding the old prefix
	freshArr := c.newRef("append")
	freshCap := c.fresh1("appcap", c.idxSort())
	c.assumeHere(sAnd(c.idxLe(newLen, freshCap), c.idxLe(freshCap, c.idxConst(allocBound))))
	res := &Val{K: VSlice, T: rt,
		Arr: c.define("apparr", "Int", sIte(fits, s.Arr, freshArr)),
		Off: c.define("appoff", c.idxSort(), sIte(fits, s.Off, c.idxConst(0))),
		Len: newLen,
		Cap: c.define("appcap", c.idxSort(), sIte(fits, s.Cap, freshCap))}
	if isStruct(et) {
		c.drop("append-struct-elems")
		return res
	}
	for _, l := range c.leavesOf(et) {
		name := elemPrefix(et) + l.suffix
		sort := "(Array Int (Array " + c.idxSort() + " " + l.sort + "))"
		c.registerMap(name, sort)
		m := c.lookup(st, name)
		inner := "(Array " + c.idxSort() + " " + l.sort + ")"
		na := c.fresh1("apparr", inner)
		oldRes := "(select " + m + " " + res.Arr + ")"
		rel := c.idxSub("j", res.Off)
		var isOld, isNew string
		if c.mode == "int" {
			isOld = sAnd("(<= "+res.Off+" j)", "(< "+rel+" "+s.Len+")")
			isNew = sAnd("(<= "+s.Len+" "+rel+")", "(< "+rel+" "+newLen+")")
		} else {
			isOld = sAnd("(bvule "+res.Off+" j)", "(bvult "+rel+" "+s.Len+")")
			isNew = sAnd("(bvule "+s.Len+" "+rel+")", "(bvult "+rel+" "+newLen+")")
		}
		oldAt := "(select (select " + m + " " + s.Arr + ") " + c.idxAdd(s.Off, rel) + ")"
		k := c.idxSub(rel, s.Len)
		var addAt string
		if add.K == VSlice {
			// per leaf: for slices of slices etc. the same leaf of the added elements
			addAt = "(select (select " + m + " " + add.Arr + ") " + c.idxAdd(add.Off, k) + ")"
		} else {
			addAt = sApp(c.strByteFn(), add.S, k)
		}
		if n0, ok0 := idxLit(s.Len); ok0 {
			if n1, ok1 := idxLit(addLen); ok1 && n0+n1 <= 16 {
				// both lengths are literals (composite literals, append(s, x)): the new content
				// is written out element by element, quantifier-free
				arr := oldRes
				for t := int64(0); t < n0+n1; t++ {
					pos := c.idxAdd(res.Off, c.idxConst(t))
					var v string
					if t < n0 {
						v = "(select (select " + m + " " + s.Arr + ") " + c.idxAdd(s.Off, c.idxConst(t)) + ")"
					} else if add.K == VSlice {
						v = "(select (select " + m + " " + add.Arr + ") " + c.idxAdd(add.Off, c.idxConst(t-n0)) + ")"
					} else {
						v = sApp(c.strByteFn(), add.S, c.idxConst(t-n0))
					}
					arr = "(store " + arr + " " + pos + " " + v + ")"
				}
				st.over[name] = c.define("hw", sort, "(store "+m+" "+res.Arr+" "+arr+")")
				continue
			}
		}
		c.assumeHere(fmt.Sprintf("(forall ((j %s)) (! (= (select %s j) (ite %s %s (ite %s %s (select %s j)))) :pattern ((select %s j))))", c.idxSort(), na, isOld, oldAt, isNew, addAt, oldRes, na))
		if n1, ok1 := idxLit(addLen); ok1 && n1 <= 4 {
			// append(s, x, ...): where the added elements land is also stated without the quantifier
			for t := int64(0); t < n1; t++ {
				pos := c.idxAdd(res.Off, c.idxAdd(s.Len, c.idxConst(t)))
				var v string
				if add.K == VSlice {
					v = "(select (select " + m + " " + add.Arr + ") " + c.idxAdd(add.Off, c.idxConst(t)) + ")"
				} else {
					v = sApp(c.strByteFn(), add.S, c.idxConst(t))
				}
				c.assumeHere(sEq("(select "+na+" "+pos+")", v))
			}
		}
		st.over[name] = c.define("hw", sort, "(store "+m+" "+res.Arr+" "+na+")")
	}
	return res
}

func (c *Ctx) mapLen(a *Val, rt types.Type, st *State) *Val {
	v := c.freshVal(rt, "maplen")
	c.assumeHere(c.idxLe(c.idxConst(0), v.S))
	c.drop("map-len")
	return v
}


// intrinsic: library functions with built-in meaning
func (c *Ctx) intrinsic(id calleeID, cc *ssa.CallCommon, args []*Val, rt types.Type, st *State) (*Val, bool) {
	switch id.short {
	case "errors.Is":
		c.declareFun("errIs", []string{"Int", "Int"}, "Bool")
		r := sApp("errIs", args[0].S, args[1].S)
		c.assumeHere(sImp(sEq(args[0].S, "0"), sNot(r)))
		c.assumeHere(sImp(sAnd(sEq(args[0].S, args[1].S), sNot(sEq(args[0].S, "0"))), r))
		return &Val{K: VScalar, T: rt, S: c.define("errIs", "Bool", r)}, true
	case "errors.As":
		// second argument: pointer to a target of some type
		tt := cc.Args[1].Type()
		if mi, ok := cc.Args[1].(*ssa.MakeInterface); ok {
			tt = mi.X.Type()
		}
		if p, ok := tt.Underlying().(*types.Pointer); ok {
			tt = p.Elem()
		}
		r := c.errAsTerm(args[0].S, tt)
		// only the target object is overwritten
		done := false
		if mi, ok := cc.Args[1].(*ssa.MakeInterface); ok {
			if a := rootAlloc(mi.X); a != nil && c.localExact[a] {
				st.locals[a] = c.freshVal(a.Type().Underlying().(*types.Pointer).Elem(), "astarget")
				done = true
			} else if pv := c.operand(mi.X, st); pv != nil && pv.K == VScalar && pv.Loc == nil {
				if _, isPtr := mi.X.Type().Underlying().(*types.Pointer); isPtr {
					c.storeObj(st, pv.S, tt, c.freshVal(tt, "astarget"))
					done = true
				}
			}
		}
		if !done {
			c.havocHeap(st, c.isGhostMap)
		}
		return &Val{K: VScalar, T: rt, S: r}, true
	}
	return nil, false
}

func (c *Ctx) errAsTerm(err string, t types.Type) string {
	fn := quoteSym("errAs|" + typeKey(t))
	c.declareFun(fn, []string{"Int"}, "Bool")
	r := sApp(fn, err)
	c.assumeHere(sImp(sEq(err, "0"), sNot(r)))
	return r
}

// ---------------------------------------------------------------- closure inlining

func (c *Ctx) canInline(f *ssa.Function) bool {
	if len(f.Blocks) == 0 || len(c.inlineStack) > 3 {
		return false
	}
	for _, g := range c.inlineStack {
		if g == f {
			return false
		}
	}
	for _, b := range f.Blocks {
		if isLoopHead(b) {
			return false
		}
	}
	return true
}

// inlineClosure symbolically executes a loop-free closure body in the caller's context.
func (c *Ctx) inlineClosure(ci *closureInfo, args []*Val, st *State, rt types.Type) *Val {
	f := ci.fn
	c.inlineStack = append(c.inlineStack, f)
	defer func() { c.inlineStack = c.inlineStack[:len(c.inlineStack)-1] }()
	c.inlined[f.Name()]++
	sub := &inlineFrame{fn: f}
	for i, p := range f.Params {
		if i < len(args) {
			c.vals[p] = args[i]
		}
	}
	for i, fv := range f.FreeVars {
		if i < len(ci.bind) {
			c.vals[fv] = ci.bind[i]
		}
	}
	for _, b := range f.Blocks {
		for _, in := range b.Instrs {
			if a, ok := in.(*ssa.Alloc); ok && !a.Heap {
				c.localExact[a] = false
			}
		}
	}
	return c.runInline(sub, st, rt)
}

type inlineFrame struct {
	fn *ssa.Function
}

func (c *Ctx) runInline(fr *inlineFrame, st *State, rt types.Type) *Val {
	fn := fr.fn
	order := rpo(fn)
	reach := map[*ssa.BasicBlock]string{}
	exit := map[*ssa.BasicBlock]*State{}
	edgeCond := map[edge]string{}
	entryReach := c.curReach
	type retInfo struct {
		reach string
		st    *State
		vals  []*Val
	}
	var rets []retInfo
	for _, b := range order {
		var bst *State
		var r string
		if b.Index == 0 {
			bst, r = st.clone(), entryReach
		} else {
			var mp []mergePred
			var mpIdx []int
			var rs []string
			for pi, p := range b.Preds {
				if _, done := exit[p]; !done {
					continue
				}
				ec := c.defineBool("iedge", sAnd(reach[p], edgeCond[edge{p.Index, b.Index}]))
				mp = append(mp, mergePred{ec, exit[p]})
				mpIdx = append(mpIdx, pi)
				rs = append(rs, ec)
			}
			if len(mp) == 0 {
				continue
			}
			r = c.defineBool("ireach", sOr(rs...))
			bst = c.mergeStates(mp)
			for _, in := range b.Instrs {
				phi, ok := in.(*ssa.Phi)
				if !ok {
					break
				}
				var cur *Val
				for k := len(mp) - 1; k >= 0; k-- {
					c.curReach = mp[k].cond
					v := c.operand(phi.Edges[mpIdx[k]], mp[k].st)
					if cur == nil {
						cur = v
					} else {
						cur = c.iteVal(mp[k].cond, v, cur)
					}
				}
				c.vals[phi] = c.nameVal(cur, phi.Name())
			}
		}
		reach[b] = r
		c.curReach = r
		ended := false
		for _, in := range b.Instrs {
			if c.curReach == "false" {
				for _, s := range b.Succs {
					if _, ok := edgeCond[edge{b.Index, s.Index}]; !ok {
						edgeCond[edge{b.Index, s.Index}] = "false"
					}
				}
				ended = true
				break
			}
			switch x := in.(type) {
			case *ssa.Phi:
			case *ssa.If:
				cv := c.operand(x.Cond, bst)
				edgeCond[edge{b.Index, b.Succs[0].Index}] = sOr(edgeCond[edge{b.Index, b.Succs[0].Index}], cv.S)
				edgeCond[edge{b.Index, b.Succs[1].Index}] = sOr(edgeCond[edge{b.Index, b.Succs[1].Index}], sNot(cv.S))
			case *ssa.Jump:
				edgeCond[edge{b.Index, b.Succs[0].Index}] = "true"
			case *ssa.Return:
				var vs []*Val
				for _, rv := range x.Results {
					vs = append(vs, c.operand(rv, bst))
				}
				rets = append(rets, retInfo{c.curReach, bst, vs})
			case *ssa.Panic:
				c.curReach = "false"
			case *ssa.RunDefers:
			default:
				c.execInstr(in, bst)
			}
		}
		if !ended && c.curReach != "false" {
			reach[b] = c.curReach
		}
		exit[b] = bst
	}
	// merge returns
	if len(rets) == 0 {
		c.curReach = "false"
		return nil
	}
	var mp []mergePred
	var rs []string
	for _, r := range rets {
		mp = append(mp, mergePred{r.reach, r.st})
		rs = append(rs, r.reach)
	}
	merged := c.mergeStates(mp)
	*st = *merged
	c.curReach = c.defineBool("iret", sOr(rs...))
	nres := len(rets[0].vals)
	if nres == 0 {
		return nil
	}
	out := make([]*Val, nres)
	for i := 0; i < nres; i++ {
		var cur *Val
		for k := len(rets) - 1; k >= 0; k-- {
			if cur == nil {
				cur = rets[k].vals[i]
			} else {
				cur = c.iteVal(rets[k].reach, rets[k].vals[i], cur)
			}
		}
		out[i] = cur
	}
	if nres == 1 {
		return out[0]
	}
	return &Val{K: VTuple, T: rt, F: out}
}

var _ = big.NewInt

// fnTypesPkg / fnPkgPath: the package a function belongs to; an instantiation of a generic
// function belongs to no package of its own: its origin's package is used.
func fnTypesPkg(f *ssa.Function) *types.Package {
	for f != nil {
		if f.Pkg != nil {
			return f.Pkg.Pkg
		}
		if o := f.Origin(); o != nil && o != f {
			f = o
			continue
		}
		if f.Parent() != nil {
			f = f.Parent()
			continue
		}
		if f.Object() != nil {
			return f.Object().Pkg()
		}
		break
	}
	return nil
}

func fnPkgPath(f *ssa.Function) string {
	if p := fnTypesPkg(f); p != nil {
		return p.Path()
	}
	return ""
}

// closureOf: the closure a called function value denotes: a MakeClosure value itself, or the
// content of a local variable that is assigned exactly once, with a closure (a func variable
// that other closures capture lives in a variable cell and is called through a load).
func (c *Ctx) closureOf(v ssa.Value) *closureInfo {
	if ci, ok := c.closures[v]; ok {
		return ci
	}
	ld, ok := v.(*ssa.UnOp)
	if !ok || ld.Op != token.MUL {
		return nil
	}
	a, ok := ld.X.(*ssa.Alloc)
	if !ok || a.Referrers() == nil {
		return nil
	}
	var stored ssa.Value
	n := 0
	for _, r := range *a.Referrers() {
		if st, ok := r.(*ssa.Store); ok && st.Addr == ssa.Value(a) {
			stored = st.Val
			n++
		}
	}
	if n != 1 {
		return nil
	}
	if ci, ok := c.closures[stored]; ok {
		return ci
	}
	return nil
}

// idxLit: the value of an index term that is a literal (#x... in bv mode, a numeral in int mode)
func idxLit(t string) (int64, bool) {
	if strings.HasPrefix(t, "#x") {
		v, err := strconv.ParseUint(t[2:], 16, 64)
		if err != nil || v > 1<<20 {
			return 0, false
		}
		return int64(v), true
	}
	v, err := strconv.ParseInt(t, 10, 64)
	if err != nil || v < 0 || v > 1<<20 {
		return 0, false
	}
	return v, true
}
