package main

import (
	"go/types"

	"golang.org/x/tools/go/ssa"
)

// currentOfSpilledParam: when a parameter is address-taken or re-assigned, go/ssa copies it
// into an Alloc with the parameter's name at function entry. A contract that names the
// parameter outside old(...) means the variable's current content.
func (c *Ctx) currentOfSpilledParam(name string, env *Env) *Val {
	var found *ssa.Alloc
	n := 0
	for _, b := range c.fn.Blocks {
		for _, in := range b.Instrs {
			if a, ok := in.(*ssa.Alloc); ok && a.Comment == name {
				if _, have := c.vals[a]; have {
					found = a
					n++
				}
			}
		}
	}
	if n != 1 {
		return nil
	}
	// only when the variable is written after its initialisation (otherwise the entry value
	// is the value, and it is simpler to reason about)
	stores := 0
	if refs := found.Referrers(); refs != nil {
		for _, r := range *refs {
			if s, ok := r.(*ssa.Store); ok && s.Addr == ssa.Value(found) {
				stores++
			}
		}
	}
	if stores <= 1 && !hasFieldStores(found) {
		return nil
	}
	return c.load(c.vals[found], found.Type().Underlying().(*types.Pointer).Elem(), env.st)
}

func hasFieldStores(a *ssa.Alloc) bool {
	var walk func(v ssa.Value, depth int) bool
	walk = func(v ssa.Value, depth int) bool {
		refs := v.Referrers()
		if refs == nil || depth > 4 {
			return false
		}
		for _, r := range *refs {
			switch x := r.(type) {
			case *ssa.Store:
				if x.Addr == v {
					if v != ssa.Value(a) {
						return true
					}
				}
			case *ssa.FieldAddr:
				if walk(x, depth+1) {
					return true
				}
			case *ssa.IndexAddr:
				if walk(x, depth+1) {
					return true
				}
			}
		}
		return false
	}
	return walk(a, 0)
}
