package main

import (
	"fmt"
	"go/token"
	"go/types"
	"math/big"
	"strings"

	"golang.org/x/tools/go/ssa"
)

func (c *Ctx) set(v ssa.Value, x *Val) { c.vals[v] = c.nameVal(x, v.Name()) }

func (c *Ctx) sweepObl(name, cond, src string) {
	if !(c.con.Sweep || sweepAll) || c.inSpec {
		return
	}
	if len(c.con.SweepKinds) > 0 && !sweepAll {
		ok := false
		for _, k := range c.con.SweepKinds {
			if name == k || strings.HasPrefix(name, k+"#") || strings.HasPrefix(name, k+".") {
				ok = true
			}
		}
		if !ok {
			return
		}
	}
	c.addObl("S", c.fnName()+"."+name, cond, src)
}

func (c *Ctx) newRef(hint string) string {
	r := c.fresh1(hint, "Int")
	c.asserts = append(c.asserts, sNot(sEq(r, "0")))
	for _, o := range c.allocRefs {
		c.asserts = append(c.asserts, sNot(sEq(r, o)))
	}
	// distinct from pointer-like parameters
	for _, p := range c.fn.Params {
		pv := c.vals[p]
		if pv == nil {
			continue
		}
		var ts, ss []string
		c.flatten(pv, &ts, &ss)
		for i := range ts {
			if ss[i] == "Int" {
				c.asserts = append(c.asserts, sNot(sEq(r, ts[i])))
			}
		}
	}
	// distinct from every reference a call has returned so far: memory allocated now cannot
	// be memory that somebody already held
	// (encoded with an allocation clock: one fact per reference instead of one per pair)
	for t2 := range c.arrFieldSeen {
		c.asserts = append(c.asserts, sNot(sEq(r, t2)))
	}
	if c.freshAllocOpt() {
		c.declareFun("atime", []string{"Int"}, "Int")
		c.allocClock++
		c.asserts = append(c.asserts, fmt.Sprintf("(= (atime %s) %d)", r, c.allocClock))
	}
	// memory allocated inside an iteration of loop N is "born in" that iteration (builtin
	// bornin(x, N)); nothing is known about references carried over from earlier iterations
	if c.curBlk != nil && len(c.inlineStack) == 0 {
		for h, ord := range c.loopOrd {
			if h == c.curBlk || loopBody(h)[c.curBlk] {
				fn := fmt.Sprintf("bornin!%d", ord)
				c.declareFun(fn, []string{"Int"}, "Bool")
				c.asserts = append(c.asserts, sApp(fn, r))
			}
		}
	}
	c.allocRefs = append(c.allocRefs, r)
	return r
}

// notePriorRefs records the reference-like components (pointers, slice arrays, interfaces) of
// a value obtained from a call
func (c *Ctx) notePriorRefs(v *Val) {
	if v == nil || len(c.priorRefs) > 400 || !c.freshAllocOpt() {
		return
	}
	var ts, ss []string
	c.flatten(v, &ts, &ss)
	c.declareFun("atime", []string{"Int"}, "Int")
	for i := range ts {
		if ss[i] == "Int" && len(ts[i]) < 80 {
			c.priorRefs = append(c.priorRefs, ts[i])
			c.asserts = append(c.asserts, fmt.Sprintf("(<= (atime %s) %d)", ts[i], c.allocClock))
		}
	}
}

func (c *Ctx) execInstr(in ssa.Instruction, st *State) {
	switch x := in.(type) {
	case *ssa.DebugRef:
		if id, ok := x.Expr.(interface{ String() string }); ok && !x.IsAddr {
			_ = id
		}
		if obj := x.Object(); obj != nil && !x.IsAddr && !(obj.Pkg() != nil && obj.Parent() == obj.Pkg().Scope()) {
			// (package-level objects are not local variables: their names in contracts
			// mean the global, read in the state the clause is evaluated in)
			c.dbg[obj.Name()] = append(c.dbg[obj.Name()], x.X)
			if c.dbgAt == nil {
				c.dbgAt = map[string]map[ssa.Value][]ssa.Instruction{}
			}
			if c.dbgAt[obj.Name()] == nil {
				c.dbgAt[obj.Name()] = map[ssa.Value][]ssa.Instruction{}
			}
			c.dbgAt[obj.Name()][x.X] = append(c.dbgAt[obj.Name()][x.X], x)
			if c.dbgObj == nil {
				c.dbgObj = map[ssa.Value]types.Object{}
			}
			c.dbgObj[x.X] = obj
		}
	case *ssa.Alloc:
		et := x.Type().Underlying().(*types.Pointer).Elem()
		if c.localExact[x] {
			st.locals[x] = c.zeroVal(et)
			c.set(x, &Val{K: VScalar, T: x.Type(), S: c.localAddr(x), Loc: &Loc{Kind: LLocal, Alloc: x}})
			return
		}
		r := c.newRef("alloc_" + x.Comment)
		c.storeObj(st, r, et, c.zeroVal(et))
		c.initGhostFields(st, r, et)
		c.set(x, &Val{K: VScalar, T: x.Type(), S: r})
	case *ssa.FieldAddr:
		c.fieldAddr(x, st)
	case *ssa.Field:
		sv := c.operand(x.X, st)
		c.set(x, sv.F[x.Field])
	case *ssa.IndexAddr:
		c.indexAddr(x, st)
	case *ssa.Index:
		c.index(x, st)
	case *ssa.UnOp:
		c.unop(x, st)
	case *ssa.BinOp:
		a, b := c.operand(x.X, st), c.operand(x.Y, st)
		c.set(x, c.binop(x.Op, a, b, x.Type(), x.Name()))
	case *ssa.Store:
		c.store(c.operand(x.Addr, st), c.operand(x.Val, st), st)
	case *ssa.Slice:
		c.sliceInstr(x, st)
	case *ssa.MakeSlice:
		et := x.Type().Underlying().(*types.Slice).Elem()
		ln := c.toIdx(c.operand(x.Len, st))
		cp := c.toIdx(c.operand(x.Cap, st))
		c.sweepObl("makeslice.len", c.idxRange(ln, c.idxConst(0), cp, true), "make([]T, len, cap)")
		arr := c.newRef("mk")
		v := &Val{K: VSlice, T: x.Type(), Arr: arr, Off: c.idxConst(0), Len: ln, Cap: cp}
		c.zeroSlice(st, et, arr)
		c.assumeHere(c.idxLe(cp, c.idxConst(allocBound)))
		c.set(x, v)
	case *ssa.Convert:
		c.set(x, c.convert(c.operand(x.X, st), x.Type(), st))
	case *ssa.ChangeType:
		v := *c.operand(x.X, st)
		v.T = x.Type()
		c.set(x, c.retype(&v, x.Type()))
	case *ssa.ChangeInterface:
		v := *c.operand(x.X, st)
		v.T = x.Type()
		c.set(x, &v)
	case *ssa.MakeInterface:
		c.set(x, c.makeIface(c.operand(x.X, st), x.Type()))
	case *ssa.TypeAssert:
		c.typeAssert(x, st)
	case *ssa.Extract:
		tv := c.operand(x.Tuple, st)
		c.set(x, tv.F[x.Index])
	case *ssa.Call:
		res := c.call(x, x.Common(), st, false)
		if res != nil {
			c.set(x, res)
		}
	case *ssa.Defer:
		// only deferred calls that may change the modelled heap make RunDefers a havoc
		if !c.callIsPure(x.Common()) {
			c.hasDefer = true
		}
		c.call(x, x.Common(), st, true)
	case *ssa.Go:
		c.drop("go")
		c.call(x, x.Common(), st, true)
	case *ssa.RunDefers:
		if c.hasDefer {
			c.havocHeap(st, c.isGhostMap)
		}
	case *ssa.MakeClosure:
		r := c.newRef("closure")
		v := &Val{K: VScalar, T: x.Type(), S: r}
		ci := &closureInfo{fn: x.Fn.(*ssa.Function)}
		for _, b := range x.Bindings {
			ci.bind = append(ci.bind, c.operand(b, st))
		}
		c.vals[x] = v
		c.closures[x] = ci
		c.capturedObligations(x, ci, st)
		// the function a closure value was made from is a property of the value (spec: boundTo)
		_, cshort, _ := fnIDs(ci.fn)
		c.declareFun("closurefn", []string{"Int"}, "Int")
		c.asserts = append(c.asserts, sEq(sApp("closurefn", r), fmt.Sprint(c.provID("closure:"+cshort))))
	case *ssa.MakeMap:
		c.set(x, &Val{K: VScalar, T: x.Type(), S: c.newRef("map")})
		c.mapInit(x, st)
	case *ssa.MakeChan:
		c.set(x, &Val{K: VScalar, T: x.Type(), S: c.newRef("chan")})
	case *ssa.MapUpdate:
		c.mapUpdate(x, st)
	case *ssa.Lookup:
		c.lookupInstr(x, st)
	case *ssa.Range:
		if isString(x.X.Type()) {
			c.strRange(x, st)
			return
		}
		c.drop("range")
		c.set(x, c.freshVal(types.Typ[types.Int], "rangeiter"))
	case *ssa.Next:
		if x.IsString {
			if r, ok := x.Iter.(*ssa.Range); ok {
				c.strNext(x, r, st)
				return
			}
		}
		c.drop("next")
		c.curReachFresh(x, st)
		// range over a map: a key the iteration yields is a key of the map at that moment
		// (and the value yielded is the value stored under it)
		if r, ok := x.Iter.(*ssa.Range); ok {
			if mt, ok := r.X.Type().Underlying().(*types.Map); ok {
				if tv := c.vals[x]; tv != nil && tv.K == VTuple && len(tv.F) >= 2 {
					mv := c.operand(r.X, st)
					key := c.mapKeyTerm(mt, tv.F[1])
					c.assumeHere(sImp(tv.F[0].S, sAnd(sNot(sEq(mv.S, "0")), c.mapHas(st, mt, mv.S, key))))
				}
			}
		}
	case *ssa.Select:
		v := c.freshVal(x.Type(), "select")
		// chanlink T.field ghost: a non-blocking receive from that channel field succeeds
		// exactly when the ghost field of the owning object is set (closed channel)
		if !x.Blocking && len(x.States) == 1 {
			if ld, ok := x.States[0].Chan.(*ssa.UnOp); ok && ld.Op == token.MUL {
				if fa, ok := ld.X.(*ssa.FieldAddr); ok {
					if g, ok := c.P.CS.ChanLinks[fieldName(fa)]; ok {
						base := c.operand(fa.X, st)
						name := "G|" + g
						c.registerMap(name, "(Array Int Bool)")
						set := "(select " + c.lookup(st, name) + " " + base.S + ")"
						it := types.Typ[types.Int]
						idx := sIte(set, c.intConst(big.NewInt(0), it), c.intConst(big.NewInt(-1), it))
						nv := *v
						nv.F = append([]*Val{{K: VScalar, T: it, S: idx}}, v.F[1:]...)
						c.set(x, &nv)
						c.chanLinksUsed[fieldName(fa)+" <-> "+g] = true
						// the poll itself is a rule event, "chanpoll(T.field)", whatever it
						// answers; a0 is the object that owns the channel
						c.applyChanRules("chanpoll", fieldName(fa), base, "true", st)
						c.definesUsed["channel link: a non-blocking receive from "+fieldName(fa)+" succeeds iff "+g+"(owner)"] = true
						return
					}
				}
			}
		}
		// a non-blocking select on ctx.Done(): remember in the built-in ghost field
		// ctxCancelSeen(0) that the cancellation branch was taken (contracts can then say
		// "unless the call was cancelled")
		if !x.Blocking && len(x.States) == 1 {
			if call, ok := x.States[0].Chan.(*ssa.Call); ok && call.Common().IsInvoke() && call.Common().Method.Name() == "Done" {
				g := c.P.CS.Ghosts["ctxCancelSeen"]
				if g == nil {
					g = &GhostDecl{Kind: "field", Name: "ctxCancelSeen", Params: []Param{{"x", "int"}}, Ret: "bool"}
					c.P.CS.Ghosts["ctxCancelSeen"] = g
				}
				name := "G|ctxCancelSeen"
				sort := c.ghostMapSort(g)
				c.registerMap(name, sort)
				m := c.lookup(st, name)
				key := c.idxConst(0)
				taken := sEq(v.F[0].S, c.intConst(big.NewInt(0), types.Typ[types.Int]))
				st.over[name] = c.define("gc", sort, "(store "+m+" "+key+" "+sOr("(select "+m+" "+key+")", taken)+")")
				// ... and in ctxPolledLive(0) what the latest poll answered: set when it answered
				// "not cancelled". Rules make it stale again (assigns ctxPolledLive) for calls
				// during which a cancellation cuts the work short.
				gl := c.P.CS.Ghosts["ctxPolledLive"]
				if gl == nil {
					gl = &GhostDecl{Kind: "field", Name: "ctxPolledLive", Params: []Param{{"x", "int"}}, Ret: "bool"}
					c.P.CS.Ghosts["ctxPolledLive"] = gl
				}
				lname := "G|ctxPolledLive"
				c.registerMap(lname, c.ghostMapSort(gl))
				st.over[lname] = c.define("gl", c.ghostMapSort(gl), "(store "+c.lookup(st, lname)+" "+key+" "+sNot(taken)+")")
				c.set(x, v)
				return
			}
		}
		c.drop("select")
		c.set(x, v)
		// sends offered as select cases are rule events (callee "chansend(T.field)"), taken
		// exactly when the select answers that case's index
		nrecv := 0
		for k, s := range x.States {
			taken := sEq(v.F[0].S, c.intConst(big.NewInt(int64(k)), types.Typ[types.Int]))
			if s.Dir == types.SendOnly {
				if name := chanFieldName(s.Chan); name != "" {
					c.applyChanRules("chansend", name, c.operand(s.Send, st), taken, st)
				}
			} else {
				// receives likewise (callee "chanrecv(T.field)", a0 = the value received)
				if name := chanFieldName(s.Chan); name != "" && 2+nrecv < len(v.F) {
					c.applyChanRules("chanrecv", name, v.F[2+nrecv], taken, st)
				}
				nrecv++
			}
		}
	case *ssa.Send:
		c.drop("send")
		if name := chanFieldName(x.Chan); name != "" {
			c.applyChanRules("chansend", name, c.operand(x.X, st), "true", st)
		}
	case *ssa.SliceToArrayPointer:
		sv := c.operand(x.X, st)
		c.drop("slice-to-array-pointer")
		_ = sv
		c.set(x, c.freshVal(x.Type(), "s2a"))
	case *ssa.MultiConvert:
		c.drop("multiconvert")
		c.set(x, c.freshVal(x.Type(), "mconv"))
	default:
		c.drop(fmt.Sprintf("instr:%T", in))
		if v, ok := in.(ssa.Value); ok {
			c.set(v, c.freshVal(v.Type(), "unk"))
		}
	}
}

func (c *Ctx) curReachFresh(x ssa.Value, st *State) { c.set(x, c.freshVal(x.Type(), "fresh_"+x.Name())) }

func (c *Ctx) localAddr(a *ssa.Alloc) string {
	n := quoteSym(fmt.Sprintf("lcl!%s!%d", a.Comment, len(c.localExact)+c.fresh))
	c.fresh++
	c.declare(n, "Int")
	c.asserts = append(c.asserts, sNot(sEq(n, "0")))
	return n
}

// ---------------------------------------------------------------- integer helpers

func (c *Ctx) toIdx(v *Val) string {
	// convert an integer value to the index sort (int 64)
	if c.mode == "int" {
		return v.S
	}
	bits, signed, ok := intInfo(v.T)
	if !ok || bits == 64 {
		return v.S
	}
	if signed {
		return fmt.Sprintf("((_ sign_extend %d) %s)", 64-bits, v.S)
	}
	return fmt.Sprintf("((_ zero_extend %d) %s)", 64-bits, v.S)
}

func (c *Ctx) idxLe(a, b string) string {
	if c.mode == "int" {
		return "(<= " + a + " " + b + ")"
	}
	return "(bvsle " + a + " " + b + ")"
}
func (c *Ctx) idxLt(a, b string) string {
	if c.mode == "int" {
		return "(< " + a + " " + b + ")"
	}
	return "(bvslt " + a + " " + b + ")"
}
func (c *Ctx) idxAdd(a, b string) string {
	if c.mode == "int" {
		if a == "0" {
			return b
		}
		if b == "0" {
			return a
		}
		return "(+ " + a + " " + b + ")"
	}
	z := c.idxConst(0)
	if a == z {
		return b
	}
	if b == z {
		return a
	}
	return "(bvadd " + a + " " + b + ")"
}
func (c *Ctx) idxSub(a, b string) string {
	if c.mode == "int" {
		if b == "0" {
			return a
		}
		return "(- " + a + " " + b + ")"
	}
	if b == c.idxConst(0) {
		return a
	}
	return "(bvsub " + a + " " + b + ")"
}

// idxRange: lo <= x <= hi (inclusive) or lo <= x < hi
func (c *Ctx) idxRange(x, lo, hi string, inclusive bool) string {
	if inclusive {
		return sAnd(c.idxLe(lo, x), c.idxLe(x, hi))
	}
	return sAnd(c.idxLe(lo, x), c.idxLt(x, hi))
}

func (c *Ctx) binop(op token.Token, a, b *Val, rt types.Type, hint string) *Val {
	res := &Val{K: VScalar, T: rt}
	// comparisons on non-integers
	switch op {
	case token.EQL, token.NEQ:
		var e string
		if empty, ok := c.strLits[""]; ok && a.K == VScalar && isString(a.T) && (a.S == empty || b.S == empty) {
			// comparison with the empty string: by length (string identities are not canonical)
			other := a.S
			if a.S == empty {
				other = b.S
			}
			e = sEq(sApp(c.strLenFn(), other), c.idxConst(0))
		} else if a.K != VScalar {
			e = c.eqVal(a, b)
		} else if isString(a.T) || (a.T != nil && c.scalarSort(a.T) == "Int" && c.mode != "int") || c.scalarSort(a.T) == "Int" || c.scalarSort(a.T) == "Bool" || strings.HasPrefix(c.scalarSort(a.T), "(Array") {
			e = sEq(a.S, b.S)
		} else {
			e = sEq(a.S, b.S)
		}
		if op == token.NEQ {
			e = sNot(e)
		}
		res.S = e
		return res
	}
	if isBool(a.T) && a.K == VScalar {
		switch op {
		case token.AND, token.LAND:
			res.S = sAnd(a.S, b.S)
			return res
		case token.OR, token.LOR:
			res.S = sOr(a.S, b.S)
			return res
		}
	}
	if isString(a.T) {
		switch op {
		case token.ADD:
			c.declareFun("sconcat", []string{"Int", "Int"}, "Int")
			res.S = sApp("sconcat", a.S, b.S)
			l := c.strLenFn()
			c.assumeHere(sEq(sApp(l, res.S), c.idxAdd(sApp(l, a.S), sApp(l, b.S))))
			return res
		case token.LSS, token.LEQ, token.GTR, token.GEQ:
			c.declareFun("slt", []string{"Int", "Int"}, "Bool")
			switch op {
			case token.LSS:
				res.S = sApp("slt", a.S, b.S)
			case token.GTR:
				res.S = sApp("slt", b.S, a.S)
			case token.LEQ:
				res.S = sNot(sApp("slt", b.S, a.S))
			case token.GEQ:
				res.S = sNot(sApp("slt", a.S, b.S))
			}
			return res
		}
	}
	bits, signed, ok := intInfo(a.T)
	if a.Wide {
		bits, signed, ok = c.wideBits(), true, true
	}
	if !ok {
		c.drop("binop-nonint:" + op.String())
		return c.freshVal(rt, "binop")
	}
	if a.Wide {
		res.Wide = true
	}
	if c.mode == "int" {
		return c.binopInt(op, a, b, rt, res, bits, signed)
	}
	x, y := a.S, b.S
	switch op {
	case token.ADD:
		res.S = "(bvadd " + x + " " + y + ")"
	case token.SUB:
		res.S = "(bvsub " + x + " " + y + ")"
	case token.MUL:
		res.S = "(bvmul " + x + " " + y + ")"
		if c.abstractMulDiv(x, y) {
			fn := fmt.Sprintf("umul%d", bits)
			c.declareFun(fn, []string{fmt.Sprintf("(_ BitVec %d)", bits), fmt.Sprintf("(_ BitVec %d)", bits)}, fmt.Sprintf("(_ BitVec %d)", bits))
			res.S = sApp(fn, x, y)
		}
	case token.QUO:
		if !signed && c.abstractMulDiv(x, y) {
			c.sweepObl("div.nonzero", sNot(sEq(y, bvLit(big.NewInt(0), bits))), "division")
			fn := fmt.Sprintf("udiv%d", bits)
			c.declareFun(fn, []string{fmt.Sprintf("(_ BitVec %d)", bits), fmt.Sprintf("(_ BitVec %d)", bits)}, fmt.Sprintf("(_ BitVec %d)", bits))
			res.S = sApp(fn, x, y)
			return res
		}
		c.sweepObl("div.nonzero", sNot(sEq(y, bvLit(big.NewInt(0), bits))), "division")
		if signed {
			res.S = "(bvsdiv " + x + " " + y + ")"
		} else {
			res.S = "(bvudiv " + x + " " + y + ")"
		}
	case token.REM:
		c.sweepObl("rem.nonzero", sNot(sEq(y, bvLit(big.NewInt(0), bits))), "remainder")
		if signed {
			res.S = "(bvsrem " + x + " " + y + ")"
		} else {
			res.S = "(bvurem " + x + " " + y + ")"
		}
	case token.AND:
		res.S = "(bvand " + x + " " + y + ")"
	case token.OR:
		res.S = "(bvor " + x + " " + y + ")"
	case token.XOR:
		res.S = "(bvxor " + x + " " + y + ")"
	case token.AND_NOT:
		res.S = "(bvand " + x + " (bvnot " + y + "))"
	case token.SHL, token.SHR:
		// shift count has its own type
		cb, csigned, _ := intInfo(b.T)
		cnt := y
		if csigned {
			c.sweepObl("shift.nonneg", "(bvsge "+y+" "+bvLit(big.NewInt(0), cb)+")", "shift count")
		}
		var big_ string // condition count >= bits
		if cb > bits {
			big_ = "(bvuge " + y + " " + bvLit(big.NewInt(int64(bits)), cb) + ")"
			cnt = fmt.Sprintf("((_ extract %d 0) %s)", bits-1, y)
		} else if cb < bits {
			cnt = fmt.Sprintf("((_ zero_extend %d) %s)", bits-cb, y)
			big_ = "false"
		} else {
			big_ = "false"
		}
		var sh, over string
		if op == token.SHL {
			sh = "(bvshl " + x + " " + cnt + ")"
			over = bvLit(big.NewInt(0), bits)
		} else if signed {
			sh = "(bvashr " + x + " " + cnt + ")"
			over = "(bvashr " + x + " " + bvLit(big.NewInt(int64(bits-1)), bits) + ")"
		} else {
			sh = "(bvlshr " + x + " " + cnt + ")"
			over = bvLit(big.NewInt(0), bits)
		}
		res.S = sIte(big_, over, sh)
	case token.LSS, token.LEQ, token.GTR, token.GEQ:
		var f string
		switch op {
		case token.LSS:
			f = "lt"
		case token.LEQ:
			f = "le"
		case token.GTR:
			f = "gt"
		case token.GEQ:
			f = "ge"
		}
		if signed {
			f = "bvs" + f
		} else {
			f = "bvu" + f
		}
		res.S = "(" + f + " " + x + " " + y + ")"
	default:
		c.drop("binop:" + op.String())
		return c.freshVal(rt, "binop")
	}
	return res
}

func (c *Ctx) inRange(term string, t types.Type) string { return c.rangeFact(term, t) }

func pow2(n int) *big.Int { return new(big.Int).Lsh(big.NewInt(1), uint(n)) }

func (c *Ctx) binopInt(op token.Token, a, b *Val, rt types.Type, res *Val, bits int, signed bool) *Val {
	x, y := a.S, b.S
	ovf := func(name string) {
		if res.Wide || c.inSpec {
			return
		}
		// mode int: the mathematical result must be representable (mandatory obligation)
		c.addObl("S", c.fnName()+".arith."+name+".inrange", c.inRange(res.S, rt), "machine arithmetic equals mathematical")
	}
	switch op {
	case token.ADD:
		res.S = "(+ " + x + " " + y + ")"
		res.S = c.define("add", "Int", res.S)
		ovf("add")
	case token.SUB:
		res.S = "(- " + x + " " + y + ")"
		ovf("sub")
	case token.MUL:
		res.S = "(* " + x + " " + y + ")"
		ovf("mul")
	case token.QUO:
		c.sweepObl("div.nonzero", sNot(sEq(y, "0")), "division")
		// Go truncated division
		res.S = fmt.Sprintf("(ite (>= %s 0) (ite (> %s 0) (div %s %s) (- (div %s (- %s)))) (ite (> %s 0) (- (div (- %s) %s)) (div (- %s) (- %s))))", x, y, x, y, x, y, y, x, y, x, y)
		if !signed {
			res.S = "(div " + x + " " + y + ")"
		} else {
			ovf("div")
		}
	case token.REM:
		c.sweepObl("rem.nonzero", sNot(sEq(y, "0")), "remainder")
		if !signed {
			res.S = "(mod " + x + " " + y + ")"
		} else {
			res.S = fmt.Sprintf("(ite (>= %s 0) (mod %s (ite (>= %s 0) %s (- %s))) (- (mod (- %s) (ite (>= %s 0) %s (- %s)))))", x, x, y, y, y, x, y, y, y)
		}
	case token.LSS:
		res.S = "(< " + x + " " + y + ")"
	case token.LEQ:
		res.S = "(<= " + x + " " + y + ")"
	case token.GTR:
		res.S = "(> " + x + " " + y + ")"
	case token.GEQ:
		res.S = "(>= " + x + " " + y + ")"
	case token.SHL, token.SHR:
		// only constant shift counts are mathematical
		if k, ok := constIntTerm(y); ok && k >= 0 && k < 256 {
			p := pow2(int(k)).String()
			if op == token.SHL {
				res.S = "(* " + x + " " + p + ")"
				ovf("shl")
			} else {
				res.S = "(div " + x + " " + p + ")"
			}
			return res
		}
		c.drop("int-mode-shift-symbolic")
		return c.freshVal(rt, "shift")
	case token.AND:
		// x & (2^k - 1) == x mod 2^k for non-negative x
		if k, ok := constIntTerm(y); ok && k >= 0 && isPow2Minus1(k) && !signed {
			res.S = "(mod " + x + " " + big.NewInt(k+1).String() + ")"
			return res
		}
		c.drop("int-mode-bitop")
		v := c.freshVal(rt, "and")
		if !signed {
			c.assumeHere(sAnd("(<= "+v.S+" "+x+")", "(<= "+v.S+" "+y+")"))
		}
		return v
	default:
		c.drop("int-mode-bitop:" + op.String())
		return c.freshVal(rt, "bitop")
	}
	return res
}

func isPow2Minus1(k int64) bool { return k >= 0 && (k+1)&k == 0 }

func constIntTerm(s string) (int64, bool) {
	var k int64
	if _, err := fmt.Sscanf(s, "%d", &k); err == nil && fmt.Sprint(k) == s {
		return k, true
	}
	return 0, false
}

func (c *Ctx) unop(x *ssa.UnOp, st *State) {
	a := c.operand(x.X, st)
	switch x.Op {
	case token.MUL: // load
		c.set(x, c.load(a, x.Type(), st))
	case token.NOT:
		c.set(x, &Val{K: VScalar, T: x.Type(), S: sNot(a.S)})
	case token.SUB:
		if c.mode == "int" {
			v := &Val{K: VScalar, T: x.Type(), S: "(- " + a.S + ")"}
			c.addObl("S", c.fnName()+".arith.neg.inrange", c.inRange(v.S, x.Type()), "negation")
			c.set(x, v)
		} else {
			c.set(x, &Val{K: VScalar, T: x.Type(), S: "(bvneg " + a.S + ")"})
		}
	case token.XOR:
		if c.mode == "int" {
			bits, signed, _ := intInfo(x.Type())
			if signed {
				c.set(x, &Val{K: VScalar, T: x.Type(), S: "(- (- " + a.S + ") 1)"})
			} else {
				c.set(x, &Val{K: VScalar, T: x.Type(), S: "(- " + new(big.Int).Sub(pow2(bits), big.NewInt(1)).String() + " " + a.S + ")"})
			}
		} else {
			c.set(x, &Val{K: VScalar, T: x.Type(), S: "(bvnot " + a.S + ")"})
		}
	case token.ARROW:
		c.drop("chan-recv")
		c.set(x, c.freshVal(x.Type(), "recv"))
	default:
		c.drop("unop:" + x.Op.String())
		c.set(x, c.freshVal(x.Type(), "unop"))
	}
}

// ---------------------------------------------------------------- memory instructions

func (c *Ctx) fieldAddr(x *ssa.FieldAddr, st *State) {
	p := c.operand(x.X, st)
	stT := x.X.Type().Underlying().(*types.Pointer).Elem()
	c.P.typeByKey[typeKey(stT)] = stT
	ft := stT.Underlying().(*types.Struct).Field(x.Field).Type()
	if p.Loc != nil && p.Loc.Kind == LLocal {
		nl := &Loc{Kind: LLocal, Alloc: p.Loc.Alloc, Path: append(append([]pathElem(nil), p.Loc.Path...), pathElem{Field: x.Field})}
		c.set(x, &Val{K: VScalar, T: x.Type(), S: p.S, Loc: nl})
		return
	}
	c.sweepObl("nil.fieldaddr", sNot(sEq(p.S, "0")), "field address of possibly nil pointer")
	if isStruct(ft) {
		c.set(x, &Val{K: VScalar, T: x.Type(), S: c.subAddr(stT, x.Field, p.S)})
		return
	}
	if _, ok := isScalarArray(ft); ok {
		c.set(x, &Val{K: VScalar, T: x.Type(), S: c.arrFieldAddr(stT, x.Field, p.S)})
		return
	}
	fn := quoteSym(fmt.Sprintf("fld|%s|%d", typeKey(stT), x.Field))
	c.declareFun(fn, []string{"Int"}, "Int")
	c.set(x, &Val{K: VScalar, T: x.Type(), S: sApp(fn, p.S), Loc: &Loc{Kind: LMap, Prefix: fieldPrefix(stT, x.Field), Keys: []string{p.S}, T: ft}})
}

func (c *Ctx) indexAddr(x *ssa.IndexAddr, st *State) {
	base := c.operand(x.X, st)
	idx := c.toIdx(c.operand(x.Index, st))
	switch u := x.X.Type().Underlying().(type) {
	case *types.Slice:
		et := u.Elem()
		c.sweepObl("index.inbounds", c.idxRange(idx, c.idxConst(0), base.Len, false), "slice index")
		pos := c.idxAdd(base.Off, idx)
		if isStruct(et) {
			c.set(x, &Val{K: VScalar, T: x.Type(), S: c.elemAddr(et, base.Arr, pos)})
			return
		}
		if _, ok := isScalarArray(et); ok {
			c.set(x, &Val{K: VScalar, T: x.Type(), S: c.elemAddr(et, base.Arr, pos)})
			return
		}
		c.set(x, &Val{K: VScalar, T: x.Type(), S: c.scalarElemAddr(et, base.Arr, pos), Loc: &Loc{Kind: LMap, Prefix: elemPrefix(et), Keys: []string{base.Arr, pos}, T: et}})
	case *types.Pointer:
		at := u.Elem().Underlying().(*types.Array)
		et := at.Elem()
		c.sweepObl("index.inbounds", c.idxRange(idx, c.idxConst(0), c.idxConst(at.Len()), false), "array index")
		if base.Loc != nil && base.Loc.Kind == LLocal {
			if _, ok := isScalarArray(at); ok {
				nl := &Loc{Kind: LLocal, Alloc: base.Loc.Alloc, Path: append(append([]pathElem(nil), base.Loc.Path...), pathElem{Field: -1, Idx: idx})}
				c.set(x, &Val{K: VScalar, T: x.Type(), S: base.S, Loc: nl})
				return
			}
			c.drop("local-array-of-composite")
			c.set(x, c.freshVal(x.Type(), "idxaddr"))
			return
		}
		if _, ok := isScalarArray(at); ok {
			c.set(x, &Val{K: VScalar, T: x.Type(), S: c.scalarElemAddr(et, base.S, idx), Loc: &Loc{Kind: LMap, Prefix: elemPrefix(et), Keys: []string{base.S, idx}, T: et}})
			return
		}
		c.set(x, &Val{K: VScalar, T: x.Type(), S: c.elemAddr(et, base.S, idx)})
	default:
		c.drop("indexaddr")
		c.set(x, c.freshVal(x.Type(), "idxaddr"))
	}
}

func (c *Ctx) index(x *ssa.Index, st *State) {
	base := c.operand(x.X, st)
	idx := c.toIdx(c.operand(x.Index, st))
	if isString(x.X.Type()) {
		c.sweepObl("index.inbounds", c.idxRange(idx, c.idxConst(0), sApp(c.strLenFn(), base.S), false), "string index")
		v := &Val{K: VScalar, T: x.Type(), S: sApp(c.strByteFn(), base.S, idx)}
		c.assumeTypeInv(v)
		c.set(x, v)
		return
	}
	if at, ok := x.X.Type().Underlying().(*types.Array); ok {
		c.sweepObl("index.inbounds", c.idxRange(idx, c.idxConst(0), c.idxConst(at.Len()), false), "array index")
		if _, ok := isScalarArray(at); ok {
			v := &Val{K: VScalar, T: x.Type(), S: "(select " + base.S + " " + idx + ")"}
			c.assumeTypeInv(v)
			c.set(x, v)
			return
		}
	}
	c.drop("index")
	c.set(x, c.freshVal(x.Type(), "index"))
}

func (c *Ctx) load(p *Val, t types.Type, st *State) *Val {
	if p.Loc != nil {
		switch p.Loc.Kind {
		case LLocal:
			root := st.locals[p.Loc.Alloc]
			if root == nil {
				c.drop("local-uninit")
				return c.freshVal(t, "ld")
			}
			return c.projPath(root, p.Loc.Path)
		case LMap:
			if strings.HasPrefix(p.Loc.Prefix, "GL|") {
				return c.globalVal(p.Loc.Prefix, t)
			}
			return c.mapRead(st, p.Loc.Prefix, p.Loc.Keys, t)
		case LConst:
			return p.Loc.Const
		}
	}
	c.sweepObl("nil.deref", sNot(sEq(p.S, "0")), "load through possibly nil pointer")
	return c.loadObj(st, p.S, t)
}

// globalVal: package-level variables are modelled as immutable during one invocation.
func (c *Ctx) globalVal(prefix string, t types.Type) *Val {
	if v, ok := c.globals[prefix]; ok {
		return v
	}
	v := c.freshVal(t, prefix)
	if c.scalarSort(t) == "Int" && v.K == VScalar && !isString(t) {
		// sentinel error / pointer globals are taken to be non-nil
		if _, isIface := t.Underlying().(*types.Interface); isIface {
			c.asserts = append(c.asserts, sNot(sEq(v.S, "0")))
		}
	}
	c.globals[prefix] = v
	return v
}

func (c *Ctx) store(p, v *Val, st *State) {
	if p.Loc != nil {
		switch p.Loc.Kind {
		case LLocal:
			root := st.locals[p.Loc.Alloc]
			if root == nil {
				root = c.zeroVal(p.Loc.Alloc.Type().Underlying().(*types.Pointer).Elem())
			}
			st.locals[p.Loc.Alloc] = c.updPath(root, p.Loc.Path, v)
			return
		case LMap:
			if strings.HasPrefix(p.Loc.Prefix, "GL|") {
				c.drop("store-to-global")
				return
			}
			c.mapWrite(st, p.Loc.Prefix, p.Loc.Keys, p.Loc.T, v)
			return
		}
	}
	c.sweepObl("nil.deref", sNot(sEq(p.S, "0")), "store through possibly nil pointer")
	t := p.T.Underlying().(*types.Pointer).Elem()
	if !isStruct(t) {
		if _, ok := isScalarArray(t); !ok {
			// opaque pointer to a scalar: may alias any field / element of that type
			c.havocLeafType(st, t)
		}
	}
	c.storeObj(st, p.S, t, v)
}

func (c *Ctx) havocLeafType(st *State, t types.Type) {
	key := typeKey(t)
	for name := range c.heapSorts {
		parts := strings.Split(name, "|")
		switch parts[0] {
		case "A":
			if parts[1] == key {
				c.havocMap(st, name)
			}
		case "F":
			if ft := c.P.fieldTypeKey(parts[1], parts[2]); ft == key {
				c.havocMap(st, name)
			}
		}
	}
}

func (c *Ctx) zeroSlice(st *State, et types.Type, arr string) {
	if isStruct(et) {
		return
	}
	if _, ok := isScalarArray(et); ok {
		return
	}
	for _, l := range c.leavesOf(et) {
		name := elemPrefix(et) + l.suffix
		sort := "(Array Int (Array " + c.idxSort() + " " + l.sort + "))"
		c.registerMap(name, sort)
		var z string
		switch {
		case l.sort == "Bool":
			z = "false"
		case l.sort == "Int":
			z = "0"
			if isString(et) {
				z = c.strLit("")
			}
		case strings.HasPrefix(l.sort, "(_ BitVec"):
			var bits int
			fmt.Sscanf(l.sort, "(_ BitVec %d)", &bits)
			z = bvLit(big.NewInt(0), bits)
		default:
			return
		}
		inner := "(Array " + c.idxSort() + " " + l.sort + ")"
		st.over[name] = c.define("hz", sort, "(store "+c.lookup(st, name)+" "+arr+" ((as const "+inner+") "+z+"))")
	}
}

func (c *Ctx) sliceInstr(x *ssa.Slice, st *State) {
	base := c.operand(x.X, st)
	var lo, hi, mx string
	if x.Low != nil {
		lo = c.toIdx(c.operand(x.Low, st))
	} else {
		lo = c.idxConst(0)
	}
	switch u := x.X.Type().Underlying().(type) {
	case *types.Slice:
		if x.High != nil {
			hi = c.toIdx(c.operand(x.High, st))
		} else {
			hi = base.Len
		}
		if x.Max != nil {
			mx = c.toIdx(c.operand(x.Max, st))
		} else {
			mx = base.Cap
		}
		c.sweepObl("slice.bounds", sAnd(c.idxLe(c.idxConst(0), lo), c.idxLe(lo, hi), c.idxLe(hi, mx), c.idxLe(mx, base.Cap)), "slice expression s[lo:hi:max]")
		v := &Val{K: VSlice, T: x.Type(), Arr: base.Arr, Off: c.idxAdd(base.Off, lo), Len: c.idxSub(hi, lo), Cap: c.idxSub(mx, lo)}
		c.set(x, v)
	case *types.Basic: // string
		l := sApp(c.strLenFn(), base.S)
		if x.High != nil {
			hi = c.toIdx(c.operand(x.High, st))
		} else {
			hi = l
		}
		c.sweepObl("slice.bounds", sAnd(c.idxLe(c.idxConst(0), lo), c.idxLe(lo, hi), c.idxLe(hi, l)), "string slice expression")
		c.set(x, c.strSub(base, lo, hi, x.Type()))
	case *types.Pointer:
		at := u.Elem().Underlying().(*types.Array)
		n := c.idxConst(at.Len())
		if x.High != nil {
			hi = c.toIdx(c.operand(x.High, st))
		} else {
			hi = n
		}
		if x.Max != nil {
			mx = c.toIdx(c.operand(x.Max, st))
		} else {
			mx = n
		}
		c.sweepObl("slice.bounds", sAnd(c.idxLe(c.idxConst(0), lo), c.idxLe(lo, hi), c.idxLe(hi, mx), c.idxLe(mx, n)), "array slice expression")
		if _, ok := isScalarArray(at); ok && base.Loc != nil && base.Loc.Kind == LLocal && base.Loc.Alloc != nil && allocWrittenOnce(base.Loc.Alloc) {
			// slice of an array inside a local variable that is written exactly once (a by-value
			// parameter or a literal) and never through a field or element afterwards: the
			// slice reads a snapshot of the array - a fresh array object with that content
			root := c.projPath(st.locals[base.Loc.Alloc], base.Loc.Path)
			arr := c.newRef("arrsnap")
			c.allocRefs = append(c.allocRefs, arr)
			name := elemPrefix(at.Elem())
			sort := "(Array Int (Array " + c.idxSort() + " " + c.scalarSort(at.Elem()) + "))"
			c.registerMap(name, sort)
			m := c.lookup(st, name)
			st.over[name] = c.define("hw", sort, "(store "+m+" "+arr+" "+root.S+")")
			c.set(x, &Val{K: VSlice, T: x.Type(), Arr: arr, Off: lo, Len: c.idxSub(hi, lo), Cap: c.idxSub(mx, lo)})
			return
		}
		if _, ok := isScalarArray(at); !ok || (base.Loc != nil && base.Loc.Kind == LLocal) {
			c.drop("slice-of-array")
			// contents (and the array object) are not modelled; length and capacity follow
			// from the slice expression itself
			fv := c.freshVal(x.Type(), "arrslice")
			if fv.K == VSlice {
				nv := *fv
				nv.Len = c.idxSub(hi, lo)
				nv.Cap = c.idxSub(mx, lo)
				fv = &nv
			}
			c.set(x, fv)
			return
		}
		c.set(x, &Val{K: VSlice, T: x.Type(), Arr: base.S, Off: lo, Len: c.idxSub(hi, lo), Cap: c.idxSub(mx, lo)})
	default:
		c.drop("slice-instr")
		c.set(x, c.freshVal(x.Type(), "slice"))
	}
}

func (c *Ctx) strSub(base *Val, lo, hi string, t types.Type) *Val {
	c.declareFun("ssub", []string{"Int", c.idxSort(), c.idxSort()}, "Int")
	s := sApp("ssub", base.S, lo, hi)
	v := &Val{K: VScalar, T: t, S: c.define("ssub", "Int", s)}
	l := c.strLenFn()
	c.assumeHere(sEq(sApp(l, v.S), c.idxSub(hi, lo)))
	// whole-string slice is the identity
	c.assumeHere(sImp(sAnd(sEq(lo, c.idxConst(0)), sEq(hi, sApp(l, base.S))), sEq(v.S, base.S)))
	bf := c.strByteFn()
	is := c.idxSort()
	var rng string
	if c.mode == "int" {
		rng = sAnd("(<= 0 i)", "(< i "+c.idxSub(hi, lo)+")")
	} else {
		rng = "(bvult i " + c.idxSub(hi, lo) + ")"
	}
	c.assumeHere(fmt.Sprintf("(forall ((i %s)) (! (=> %s (= (%s %s i) (%s %s %s))) :pattern ((%s %s i))))", is, rng, bf, v.S, bf, base.S, c.idxAdd(lo, "i"), bf, v.S))
	return v
}

// ---------------------------------------------------------------- conversions

func (c *Ctx) retype(v *Val, t types.Type) *Val {
	// ChangeType between identical underlying types: re-tag nested struct types too
	n := *v
	n.T = t
	if v.K == VStruct {
		st := t.Underlying().(*types.Struct)
		n.F = make([]*Val, len(v.F))
		for i := range v.F {
			n.F[i] = c.retype(v.F[i], st.Field(i).Type())
		}
	}
	return &n
}

func (c *Ctx) convert(v *Val, to types.Type, st *State) *Val {
	from := v.T
	fb, fs, fok := intInfo(from)
	tb, ts, tok := intInfo(to)
	if fok && tok {
		if c.mode == "int" {
			// value must be representable in the target
			c.addObl("S", c.fnName()+".conv.inrange", c.inRange(v.S, to), fmt.Sprintf("conversion %s -> %s", from, to))
			return &Val{K: VScalar, T: to, S: v.S}
		}
		_ = ts
		s := v.S
		switch {
		case tb == fb:
		case tb < fb:
			s = fmt.Sprintf("((_ extract %d 0) %s)", tb-1, s)
		case fs:
			s = fmt.Sprintf("((_ sign_extend %d) %s)", tb-fb, s)
		default:
			s = fmt.Sprintf("((_ zero_extend %d) %s)", tb-fb, s)
		}
		return &Val{K: VScalar, T: to, S: s}
	}
	// string <-> []byte
	if isString(from) {
		if sl, ok := to.Underlying().(*types.Slice); ok {
			if b, _, ok := intInfo(sl.Elem()); ok && b == 8 {
				return c.bytesOfString(v, to, st)
			}
		}
		if isString(to) {
			n := *v
			n.T = to
			return &n
		}
	}
	if sl, ok := from.Underlying().(*types.Slice); ok && isString(to) {
		if b, _, ok := intInfo(sl.Elem()); ok && b == 8 {
			return c.stringOfBytes(v, to, st)
		}
	}
	if types.Identical(from.Underlying(), to.Underlying()) || c.scalarSort(from) == c.scalarSort(to) && v.K == VScalar && c.scalarSort(from) == "Int" {
		return c.retype(v, to)
	}
	c.drop(fmt.Sprintf("convert:%s->%s", from, to))
	return c.freshVal(to, "conv")
}

func (c *Ctx) bytesOfString(v *Val, to types.Type, st *State) *Val {
	arr := c.newRef("s2b")
	l := sApp(c.strLenFn(), v.S)
	res := &Val{K: VSlice, T: to, Arr: arr, Off: c.idxConst(0), Len: l, Cap: c.fresh1("s2bcap", c.idxSort())}
	c.assumeHere(sAnd(c.idxLe(l, res.Cap), c.idxLe(res.Cap, c.idxConst(allocBound))))
	et := to.Underlying().(*types.Slice).Elem()
	name := elemPrefix(et)
	sort := "(Array Int (Array " + c.idxSort() + " " + c.byteSort() + "))"
	c.registerMap(name, sort)
	// contents: fresh inner array equal to the string bytes on [0,len)
	inner := c.fresh1("s2barr", "(Array "+c.idxSort()+" "+c.byteSort()+")")
	var rng string
	if c.mode == "int" {
		rng = sAnd("(<= 0 i)", "(< i "+l+")")
	} else {
		rng = "(bvult i " + l + ")"
	}
	bf := c.strByteFn()
	if !c.abstractCopyContent() {
		c.assumeHere(fmt.Sprintf("(forall ((i %s)) (! (=> %s (= (select %s i) (%s %s i))) :pattern ((select %s i))))", c.idxSort(), rng, inner, bf, v.S, inner))
	}
	st.over[name] = c.define("hw", sort, "(store "+c.lookup(st, name)+" "+arr+" "+inner+")")
	return res
}

func (c *Ctx) stringOfBytes(v *Val, to types.Type, st *State) *Val {
	et := v.T.Underlying().(*types.Slice).Elem()
	name := elemPrefix(et)
	sort := "(Array Int (Array " + c.idxSort() + " " + c.byteSort() + "))"
	c.registerMap(name, sort)
	m := c.lookup(st, name)
	// the string is a function of the bytes converted: converting the same slice in the same
	// state twice (in code and in a contract) yields the same string
	inner := "(Array " + c.idxSort() + " " + c.byteSort() + ")"
	c.declareFun("b2sfn", []string{inner, c.idxSort(), c.idxSort()}, "Int")
	id := c.fresh1("b2s", "Int")
	c.asserts = append(c.asserts, sEq(id, sApp("b2sfn", "(select "+m+" "+v.Arr+")", v.Off, v.Len)))
	l := c.strLenFn()
	c.assumeHere(sEq(sApp(l, id), v.Len))
	var rng string
	if c.mode == "int" {
		rng = sAnd("(<= 0 i)", "(< i "+v.Len+")")
	} else {
		rng = "(bvult i " + v.Len + ")"
	}
	bf := c.strByteFn()
	c.assumeHere(fmt.Sprintf("(forall ((i %s)) (! (=> %s (= (%s %s i) (select (select %s %s) %s))) :pattern ((%s %s i))))", c.idxSort(), rng, bf, id, m, v.Arr, c.idxAdd(v.Off, "i"), bf, id))
	return &Val{K: VScalar, T: to, S: id}
}

func (c *Ctx) makeIface(v *Val, t types.Type) *Val {
	// MakeInterface yields a non-nil interface value that is a function of the wrapped value
	var args, sorts []string
	c.flatten(v, &args, &sorts)
	fn := quoteSym("mkiface|" + typeKey(v.T))
	if _, isPtr := v.T.Underlying().(*types.Pointer); isPtr && v.K == VScalar && v.Loc == nil {
		// an interface holding a non-nil pointer is identified with that pointer, so that
		// ghost facts about the interface value and about the pointer coincide; a nil
		// pointer still makes a non-nil interface
		nilc := quoteSym("nilptr_iface|" + typeKey(v.T))
		c.declare(nilc, "Int")
		c.asserts = append(c.asserts, sNot(sEq(nilc, "0")))
		s := sIte(sEq(v.S, "0"), nilc, v.S)
		c.declareFun("dyntype", []string{"Int"}, "Int")
		c.assumeHere(sEq(sApp("dyntype", s), c.typeTag(v.T)))
		return &Val{K: VScalar, T: t, S: c.define("iface", "Int", s)}
	}
	if len(args) == 0 {
		n := quoteSym("mkiface|" + typeKey(v.T) + "|c")
		c.declare(n, "Int")
		c.asserts = append(c.asserts, sNot(sEq(n, "0")))
		return &Val{K: VScalar, T: t, S: n}
	}
	c.declareFun(fn, sorts, "Int")
	s := sApp(fn, args...)
	c.assumeHere(sNot(sEq(s, "0")))
	// dynamic type tag
	c.declareFun("dyntype", []string{"Int"}, "Int")
	c.assumeHere(sEq(sApp("dyntype", s), c.typeTag(v.T)))
	return &Val{K: VScalar, T: t, S: c.define("iface", "Int", s)}
}

func (c *Ctx) typeTag(t types.Type) string {
	k := typeKey(t)
	if id, ok := c.typeTags[k]; ok {
		return id
	}
	id := fmt.Sprint(len(c.typeTags) + 1)
	c.typeTags[k] = id
	return id
}

func (c *Ctx) typeAssert(x *ssa.TypeAssert, st *State) {
	v := c.operand(x.X, st)
	if x.CommaOk {
		ok := c.fresh1("taok", "Bool")
		res := c.freshVal(x.AssertedType, "ta")
		// a nil interface never satisfies a type assertion
		c.assumeHere(sImp(sEq(v.S, "0"), sNot(ok)))
		if _, isIface := x.AssertedType.Underlying().(*types.Interface); isIface {
			c.assumeHere(sImp(ok, sEq(res.S, v.S)))
		} else {
			c.declareFun("dyntype", []string{"Int"}, "Int")
			c.assumeHere(sEq(ok, sAnd(sNot(sEq(v.S, "0")), sEq(sApp("dyntype", v.S), c.typeTag(x.AssertedType)))))
		}
		c.set(x, &Val{K: VTuple, T: x.Type(), F: []*Val{res, {K: VScalar, T: types.Typ[types.Bool], S: ok}}})
		return
	}
	if _, isIface := x.AssertedType.Underlying().(*types.Interface); isIface {
		c.sweepObl("typeassert.nonnil", sNot(sEq(v.S, "0")), "type assertion without comma-ok")
		n := *v
		n.T = x.AssertedType
		c.set(x, &n)
		return
	}
	c.declareFun("dyntype", []string{"Int"}, "Int")
	c.sweepObl("typeassert.type", sAnd(sNot(sEq(v.S, "0")), sEq(sApp("dyntype", v.S), c.typeTag(x.AssertedType))), "type assertion without comma-ok")
	c.set(x, c.freshVal(x.AssertedType, "ta"))
}

// ---------------------------------------------------------------- maps (uninterpreted unless modelled)


func (c *Ctx) lookupInstr(x *ssa.Lookup, st *State) {
	if isString(x.X.Type()) {
		base := c.operand(x.X, st)
		idx := c.toIdx(c.operand(x.Index, st))
		c.sweepObl("index.inbounds", c.idxRange(idx, c.idxConst(0), sApp(c.strLenFn(), base.S), false), "string index")
		v := &Val{K: VScalar, T: x.Type(), S: sApp(c.strByteFn(), base.S, idx)}
		c.assumeTypeInv(v)
		c.set(x, v)
		return
	}
	if _, ok := x.X.Type().Underlying().(*types.Map); ok {
		c.mapLookup(x, st)
		return
	}
	c.drop("map-lookup")
	c.set(x, c.freshVal(x.Type(), "lookup"))
}

// scalarElemAddr: opaque address of a scalar slice/array element. Unlike elemAddr it carries
// no injectivity axiom (the element is accessed through its Loc, the address only matters
// if the pointer escapes), which keeps quantifiers out of ordinary queries.
func (c *Ctx) scalarElemAddr(t types.Type, arr, idx string) string {
	fn := quoteSym("eaddr|" + typeKey(t))
	c.declareFun(fn, []string{"Int", c.idxSort()}, "Int")
	return sApp(fn, arr, idx)
}

// ---------------------------------------------------------------- range over a string
//
// `for i, r := range s` is an iterator with a hidden byte position, kept in the heap map
// RP|str under the iterator's identity. Next yields (pos < len(s), pos, rune) and advances
// the position by the width of the UTF-8 sequence at pos: exactly 1 for an ASCII byte,
// between 1 and 4 (and never past the end) otherwise. The decoded rune is the byte itself
// for ASCII and unconstrained otherwise. Contracts name the position `rangepos`.

func (c *Ctx) strRange(x *ssa.Range, st *State) {
	it := c.newRef("striter")
	c.allocRefs = append(c.allocRefs, it)
	intT := types.Typ[types.Int]
	c.mapWrite(st, "RP|str", []string{it}, intT, &Val{K: VScalar, T: intT, S: c.intConst(big.NewInt(0), intT)})
	c.set(x, &Val{K: VScalar, T: intT, S: it})
}

func (c *Ctx) strIterPos(r *ssa.Range, st *State) *Val {
	it, ok := c.vals[r]
	if !ok {
		return nil
	}
	return c.mapReadQuiet(st, "RP|str", []string{it.S}, types.Typ[types.Int])
}

func (c *Ctx) strNext(x *ssa.Next, r *ssa.Range, st *State) {
	intT := types.Typ[types.Int]
	s := c.operand(r.X, st)
	it := c.operand(r, st)
	pos := c.mapReadQuiet(st, "RP|str", []string{it.S}, intT)
	ln := sApp(c.strLenFn(), s.S)
	lt := func(a, b string) string {
		if c.mode == "int" {
			return "(< " + a + " " + b + ")"
		}
		return "(bvslt " + a + " " + b + ")"
	}
	le := func(a, b string) string {
		if c.mode == "int" {
			return "(<= " + a + " " + b + ")"
		}
		return "(bvsle " + a + " " + b + ")"
	}
	zero := c.intConst(big.NewInt(0), intT)
	// the position is only ever written here: it stays within [0, len]
	c.assumeHere(sAnd(le(zero, pos.S), le(pos.S, ln)))
	ok := c.defineBool("strnext_ok", lt(pos.S, ln))
	np := c.freshVal(intT, "strnext_pos")
	b := sApp(c.strByteFn(), s.S, pos.S)
	var ascii, one, four string
	if c.mode == "int" {
		ascii = "(< " + b + " 128)"
		one = "(+ " + pos.S + " 1)"
		four = "(+ " + pos.S + " 4)"
	} else {
		ascii = "(bvult " + b + " #x80)"
		one = "(bvadd " + pos.S + " " + c.intConst(big.NewInt(1), intT) + ")"
		four = "(bvadd " + pos.S + " " + c.intConst(big.NewInt(4), intT) + ")"
	}
	c.assumeHere(sImp(ok, sAnd(le(one, np.S), le(np.S, four), le(np.S, ln), sImp(ascii, sEq(np.S, one)))))
	c.assumeHere(sImp(sNot(ok), sEq(np.S, pos.S)))
	c.mapWrite(st, "RP|str", []string{it.S}, intT, np)
	res := c.freshVal(x.Type(), "strnext")
	nv := *res
	nv.F = append([]*Val{}, res.F...)
	nv.F[0] = &Val{K: VScalar, T: types.Typ[types.Bool], S: ok}
	if len(nv.F) > 1 {
		nv.F[1] = &Val{K: VScalar, T: intT, S: pos.S}
	}
	if bits, _, isInt := intInfo(nv.F[len(nv.F)-1].T); len(nv.F) > 2 && c.mode != "int" && isInt && bits == 32 {
		c.assumeHere(sImp(sAnd(ok, ascii), sEq(nv.F[2].S, "((_ zero_extend 24) "+b+")")))
	}
	c.set(x, &nv)
}

// allocWrittenOnce: the variable is the spill of a by-value parameter: stored to exactly once,
// with the parameter, and never through one of its fields or elements
func allocWrittenOnce(a *ssa.Alloc) bool {
	n := 0
	fromParam := false
	if refs := a.Referrers(); refs != nil {
		for _, r := range *refs {
			if st, ok := r.(*ssa.Store); ok && st.Addr == ssa.Value(a) {
				n++
				_, fromParam = st.Val.(*ssa.Parameter)
			}
		}
	}
	// only the spill of a by-value parameter qualifies: a zero-initialised local that is
	// sliced is usually sliced in order to be filled through the slice
	return n == 1 && fromParam && !hasFieldStores(a)
}

// freshAllocOpt: contract option freshalloc=true - memory allocated by the function is distinct
// from every reference a call returned earlier (off by default: it adds integer facts to
// every query of the function)
func (c *Ctx) freshAllocOpt() bool { return c.con != nil && c.con.Opts["freshalloc"] == "true" }

// capturedObligations: a closure's `captured` clauses (facts about the variables it captures
// by value, assumed on its entry) are demanded where the closure is made.
func (c *Ctx) capturedObligations(x *ssa.MakeClosure, ci *closureInfo, st *State) {
	key, cshort, _ := fnIDs(ci.fn)
	con := c.P.CS.Funcs[key]
	if con == nil || len(con.Captured) == 0 {
		return
	}
	env := &Env{c: c, names: map[string]*Val{}, st: st, old: c.entry, pkgPath: fnPkgPath(c.fn)}
	for i, fv := range ci.fn.FreeVars {
		if i >= len(x.Bindings) {
			break
		}
		// go/ssa captures every variable by reference; the clause may name a variable whose
		// cell is written once, before the closure is made, and only read afterwards: its
		// content here is the content the closure will see
		pt, ok := fv.Type().Underlying().(*types.Pointer)
		if !ok || !stableFreeVar(ci.fn, fv) {
			continue
		}
		if al, cell := x.Bindings[i].(*ssa.Alloc); cell && !storedBefore(al, x) {
			continue
		}
		env.names[fv.Name()] = c.load(ci.bind[i], pt.Elem(), st)
	}
	for i, r := range con.Captured {
		label := r.Label
		if label == "" {
			label = fmt.Sprint(i + 1)
		}
		cond := c.evalBool(r.E, env, "captured clause of "+cshort)
		o := c.addObl("G", fmt.Sprintf("%s.closure[%s].captured[%s]", c.fnName(), cshort, label), cond, r.Src)
		if len(r.Props) > 0 {
			o.Props = append(append([]string{}, c.props...), r.Props...)
		} else {
			o.Props = append(append([]string{}, c.props...), con.Props...)
		}
	}
}

// storedBefore: the only store to the cell (if any) dominates the instruction.
func storedBefore(al *ssa.Alloc, at ssa.Instruction) bool {
	refs := al.Referrers()
	if refs == nil {
		return false
	}
	for _, r := range *refs {
		stx, ok := r.(*ssa.Store)
		if !ok || stx.Addr != ssa.Value(al) {
			continue
		}
		if stx.Block() == at.Block() {
			for _, in := range stx.Block().Instrs {
				if in == ssa.Instruction(stx) {
					break
				}
				if in == at {
					return false
				}
			}
			continue
		}
		if !stx.Block().Dominates(at.Block()) {
			return false
		}
	}
	return true
}
