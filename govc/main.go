package main

import (
	"encoding/json"
	"flag"
	"fmt"
	"os"
	"path/filepath"
	"regexp"
	"sort"
	"strconv"
	"strings"
	"sync"
	"time"

	"golang.org/x/tools/go/ssa"
)

type ReplaySpec struct {
	Match    string `json:"match"`    // regexp on obligation name
	Template string `json:"template"` // file under replay/<prop>/
	PkgDir   string `json:"pkgdir"`   // package directory (relative to repo) the test is injected into
	Run      string `json:"run"`      // -run pattern
	Ext      bool   `json:"external"` // test lives in package <name>_test
	Known    bool   `json:"known"`    // demonstrates a recorded open finding: fails on the current tree by design, not part of the smoke run
}

type BoundedSpec struct {
	Name   string `json:"name"`
	PkgDir string `json:"pkgdir"`
	File   string `json:"file"` // test file under bounded/<prop>/
	Run    string `json:"run"`
	Bound  string `json:"bound"`
	Tier   string `json:"tier"` // "" both, "thorough" only thorough
}

type PropConfig struct {
	Packages []string      `json:"packages"`
	Replays  []ReplaySpec  `json:"replays"`
	Bounded  []BoundedSpec `json:"bounded"`
	Trusted  []string      `json:"trusted_base"`
	Assume   []string      `json:"assumptions"`
	Expect   int           `json:"min_obligations"`
}

type KnownFinding struct {
	Property   string `json:"property"`
	Obligation string `json:"obligation"` // regexp on obligation name
	Region     string `json:"region"`     // SMT-LIB predicate over model symbols (optional)
	What       string `json:"what"`
	Status     string `json:"status"` // known | fixed
	// UnlessOutput: for bounded stand-ins - the finding does not cover a run whose output matches
	UnlessOutput string `json:"unless_output,omitempty"`
	Commit     string `json:"commit,omitempty"`
}

type funcReport struct {
	Name      string         `json:"name"`
	Pos       string         `json:"pos"`
	Instrs    int            `json:"ssa_instructions"`
	Blocks    int            `json:"blocks"`
	Loops     int            `json:"loops"`
	Mode      string         `json:"mode"`
	Classes   string         `json:"classes"`
	Dropped   map[string]int `json:"dropped_constructs,omitempty"`
	Uncontracted map[string]int `json:"havocked_callees,omitempty"`
	Inlined   map[string]int `json:"inlined_closures,omitempty"`
	Contract  string         `json:"contract_at"`
}

// sweepAll (GOVC_SWEEP_ALL=1): diagnostic run with the zero-annotation safety sweep on every
// function under contract - a way to look for candidates, never part of a registered check
var sweepAll = os.Getenv("GOVC_SWEEP_ALL") == "1"

var (
	flagRepo    = flag.String("repo", "/repo", "repository root")
	flagVerif   = flag.String("verif", "/verif", "verif root")
	flagProp    = flag.String("prop", "", "property id")
	flagTier    = flag.String("tier", "quick", "quick|thorough")
	flagDump    = flag.String("dump", "", "directory to dump obligations (.smt2)")
	flagFunc    = flag.String("func", "", "only this function (debug)")
	flagV       = flag.Bool("v", false, "verbose")
	flagReplay  = flag.String("replay", "", "re-run a stored replay file")
	flagNoEvid  = flag.Bool("no-evidence", false, "do not write the evidence file")
	flagJobs    = flag.Int("j", 8, "parallel obligations")
	flagIgnoreKnown = flag.Bool("ignore-known", false, "ignore known_findings.json (self-test: known findings must then be reported as violations)")
)

func main() {
	flag.Parse()
	if *flagReplay != "" {
		os.Exit(rerunReplay(*flagReplay))
	}
	if *flagProp == "" {
		fmt.Fprintln(os.Stderr, "usage: govc -prop C11 [-tier quick|thorough]")
		os.Exit(2)
	}
	code := runProp(*flagProp)
	if scratchDir != "" {
		os.RemoveAll(scratchDir)
	}
	os.Exit(code)
}

func readJSON(path string, v any) error {
	b, err := os.ReadFile(path)
	if err != nil {
		return err
	}
	return json.Unmarshal(b, v)
}

func hasProp(ps []string, p string) bool {
	for _, x := range ps {
		if x == p {
			return true
		}
	}
	return false
}

type runResult struct {
	obls      []*Obl
	covers    []*Obl
	siteCovers []*Obl
	siteOf    []*Obl
	funcs     []funcReport
	undecided []string
	unbound   [][2]string // contracted functions whose obligations could not be generated: function, reason
	deps      map[string]bool
	ctxOf     map[*Obl]*Ctx
}

func runProp(prop string) int {
	t0 := time.Now()
	seed, _ := strconv.Atoi(os.Getenv("VERIF_SEED"))
	if t := os.Getenv("VERIF_TIER"); t != "" && !flagSet("tier") {
		*flagTier = t
	}
	var cfgs map[string]*PropConfig
	if err := readJSON(filepath.Join(*flagVerif, "props.json"), &cfgs); err != nil {
		fmt.Fprintln(os.Stderr, "props.json:", err)
		return 2
	}
	cfg := cfgs[prop]
	if cfg == nil {
		fmt.Fprintln(os.Stderr, "no configuration for property", prop)
		return 2
	}
	var known []KnownFinding
	if !*flagIgnoreKnown {
		readJSON(filepath.Join(*flagVerif, "known_findings.json"), &known)
	}
	knownPrinted := map[string]bool{}

	P, err := loadProgram(*flagRepo, *flagVerif, cfg.Packages)
	if err != nil {
		// a tree that does not compile is not a property violation; report as broken run
		fmt.Fprintln(os.Stderr, "load:", err)
		return 2
	}
	rr := &runResult{deps: map[string]bool{}, ctxOf: map[*Obl]*Ctx{}}
	// quick: generous relative to the slowest obligation on the unchanged tree (< 4 s), so that a
	// loaded machine does not turn a proof into a timeout
	timeout := 60
	if *flagTier == "thorough" {
		timeout = 120
	}

	// 1. functions under contract for this property
	var keys []string
	for k, con := range P.CS.Funcs {
		if hasProp(con.Props, prop) {
			keys = append(keys, k)
		}
	}
	sort.Strings(keys)
	todo := map[*ssa.Function]*Contract{}
	var order []*ssa.Function
	var ifaceAssumed []string
	needSmoke := false
	for _, k := range keys {
		con := P.CS.Funcs[k]
		if con.Kind == "iface" {
			// contract of an interface method: assumed for every implementation
			var es []string
			for _, e := range con.Ensures {
				es = append(es, e.Src)
			}
			ifaceAssumed = append(ifaceAssumed, fmt.Sprintf("every implementation of %s satisfies: ensures %s", con.Name, strings.Join(es, " && ")))
			continue
		}
		fn := P.funcsByKey[k]
		if fn == nil || len(fn.Blocks) == 0 {
			rr.undecided = append(rr.undecided, fmt.Sprintf("%s (function not found in the current tree)", k))
			fmt.Printf("UNDECIDED %s: contracted function not found\n", k)
			needSmoke = true
			rr.unbound = append(rr.unbound, [2]string{k, "contracted function not found in the current tree"})
			continue
		}
		if fn.TypeParams().Len() > 0 || len(P.instances[fn]) > 0 {
			// a generic function: the contract is verified on every instantiation the
			// program contains (the instances are what runs)
			insts := append([]*ssa.Function{}, P.instances[fn]...)
			sort.Slice(insts, func(i, j int) bool { return insts[i].String() < insts[j].String() })
			if len(insts) == 0 {
				rr.undecided = append(rr.undecided, fmt.Sprintf("%s (generic function without instantiations in the loaded packages)", k))
				fmt.Printf("UNDECIDED %s: generic function is never instantiated in the loaded packages\n", k)
				continue
			}
			for _, in := range insts {
				todo[in] = con
				order = append(order, in)
			}
			continue
		}
		todo[fn] = con
		order = append(order, fn)
	}
	// 2. callers named by callrules of this property
	var rules []*CallRule
	rulePkg := map[*CallRule]string{}
	for _, r := range P.CS.Rules {
		if hasProp(r.Props, prop) {
			rules = append(rules, r)
			rulePkg[r] = pkgOfFile(P, r.File)
		}
	}
	if len(rules) > 0 {
		var fns []*ssa.Function
		for _, sp := range P.SSAPkgs {
			for f := range allFuncsOfPkg(P, sp) {
				fns = append(fns, f)
			}
		}
		sort.Slice(fns, func(i, j int) bool { return fns[i].String() < fns[j].String() })
		for _, f := range fns {
			if len(f.Blocks) == 0 || f.Parent() != nil && false {
				continue
			}
			for _, r := range rules {
				if r.callerMatches(f, rulePkg[r]) {
					if _, ok := todo[f]; !ok {
						key, _, _ := fnIDs(f)
						con := P.CS.Funcs[key]
						if con == nil {
							con = &Contract{Kind: "func", Name: f.RelString(f.Pkg.Pkg), Pkg: f.Pkg.Pkg.Path(), Mode: "bv", LoopInv: map[int][]*Clause{}, LoopDec: map[int]*Clause{}, LoopMod: map[int][]string{}, Opts: map[string]string{}, File: r.File, Line: r.Line}
						}
						todo[f] = con
						order = append(order, f)
					}
					break
				}
			}
		}
	}
	// 2b. modularity: every caller (in the loaded packages) of a function whose contract
	// for this property has a precondition is verified too, so that the precondition is
	// demanded at every call site and not only inside functions that happen to be listed.
	{
		need := map[string]bool{}
		for k, con := range P.CS.Funcs {
			if hasProp(con.Props, prop) && len(con.Requires) > 0 && con.Kind == "func" {
				need[k] = true
			}
		}
		if len(need) > 0 {
			var fns []*ssa.Function
			for _, sp := range P.SSAPkgs {
				for f := range allFuncsOfPkg(P, sp) {
					fns = append(fns, f)
				}
			}
			sort.Slice(fns, func(i, j int) bool { return fns[i].String() < fns[j].String() })
			for _, f := range fns {
				if _, ok := todo[f]; ok || len(f.Blocks) == 0 {
					continue
				}
				calls := false
				calleeWide := ""
				for _, b := range f.Blocks {
					for _, in := range b.Instrs {
						if ci, ok := in.(ssa.CallInstruction); ok {
							if callee := ci.Common().StaticCallee(); callee != nil {
								k, _, _ := fnIDs(callee)
								if o := callee.Origin(); o != nil {
									k, _, _ = fnIDs(o)
								}
								if need[k] {
									calls = true
									if w := P.CS.Funcs[k].Opts["wide"]; w != "" && (calleeWide == "" || len(w) > len(calleeWide) || len(w) == len(calleeWide) && w > calleeWide) {
										calleeWide = w
									}
								}
							}
						}
					}
				}
				if !calls {
					continue
				}
				key, _, _ := fnIDs(f)
				con := P.CS.Funcs[key]
				if con == nil {
					con = &Contract{Kind: "func", Name: f.RelString(f.Pkg.Pkg), Pkg: f.Pkg.Pkg.Path(), Mode: "bv", LoopInv: map[int][]*Clause{}, LoopDec: map[int]*Clause{}, LoopMod: map[int][]string{}, Opts: map[string]string{}}
					if calleeWide != "" {
						// the callee's precondition is stated over its spec-integer width
						con.Opts["wide"] = calleeWide
					}
				}
				todo[f] = con
				order = append(order, f)
			}
		}
	}
	// 2c. a closure whose contract states facts about captured values: the function that makes
	// the closure is verified too (the facts are demanded there).
	for _, f := range append([]*ssa.Function{}, order...) {
		con := todo[f]
		if con == nil || len(con.Captured) == 0 || !hasProp(con.Props, prop) {
			continue
		}
		par := f.Parent()
		if par == nil {
			continue
		}
		if _, ok := todo[par]; ok {
			continue
		}
		key, _, _ := fnIDs(par)
		pc := P.CS.Funcs[key]
		if pc == nil {
			pc = &Contract{Kind: "func", Name: par.RelString(par.Pkg.Pkg), Pkg: par.Pkg.Pkg.Path(), Mode: con.Mode, LoopInv: map[int][]*Clause{}, LoopDec: map[int]*Clause{}, LoopMod: map[int][]string{}, Opts: map[string]string{}}
		}
		todo[par] = pc
		order = append(order, par)
	}
	ruleHits := map[string]int{}
	definesUsed := map[string]bool{}
	// opt instances=name:lo..hi : the function is verified once per value of an integer
	// parameter (a complete case split of the stated range; every case is its own set of
	// obligations, all must discharge)
	type job struct {
		fn   *ssa.Function
		con  *Contract
		inst string
	}
	var jobs []job
	for _, fn := range order {
		con := todo[fn]
		spec := con.Opts["instances"]
		if spec == "" {
			jobs = append(jobs, job{fn, con, ""})
			continue
		}
		var name string
		var lo, hi int
		if i := strings.Index(spec, ":"); i > 0 {
			name = spec[:i]
			fmt.Sscanf(spec[i+1:], "%d..%d", &lo, &hi)
		}
		if *flagTier != "thorough" {
			if q := con.Opts["instances_quick"]; q != "" {
				fmt.Sscanf(q, "%d..%d", &lo, &hi)
			}
		}
		for k := lo; k <= hi; k++ {
			cc := *con
			src := fmt.Sprintf("%s == %d", name, k)
			e, err := parseExpr(src)
			if err != nil {
				continue
			}
			cc.Requires = append(append([]*Clause{}, con.Requires...), &Clause{Label: "instance", E: e, Src: src})
			jobs = append(jobs, job{fn, &cc, fmt.Sprintf("[%s=%d]", name, k)})
		}
	}
	for _, jb := range jobs {
		fn, con := jb.fn, jb.con
		if *flagFunc != "" && !strings.Contains(fn.String(), *flagFunc) {
			continue
		}
		c := P.newCtx(fn, con)
		c.inst = jb.inst
		c.ruleHits = ruleHits
		for _, r := range rules {
			if r.callerMatches(fn, rulePkg[r]) {
				c.activeRules = append(c.activeRules, r)
			}
		}
		func() {
			defer func() {
				if r := recover(); r != nil {
					c.err = fmt.Errorf("generator panic: %v", r)
					if *flagV {
						panic(r)
					}
				}
			}()
			c.run()
			if c.err == nil {
				c.addRelevantAxioms(c.entry)
			}
		}()
		if c.err != nil {
			// The contracts bind on the unchanged tree; a binding failure here means the code
			// under contract changed shape (renamed local, different loop count, ...). The
			// function's obligations, discharged on the unchanged tree, cannot be generated
			// any more: they are reported at the end as undischarged (a violation without a
			// failing input). The replay templates still run (step 6b) and may confirm.
			fmt.Fprintf(os.Stderr, "UNDECIDED %s: %v\n", fn, c.err)
			rr.undecided = append(rr.undecided, fmt.Sprintf("%s: %v", fn, c.err))
			fmt.Printf("UNDECIDED %s: %v\n", fn, c.err)
			needSmoke = true
			rr.unbound = append(rr.unbound, [2]string{fn.String(), fmt.Sprint(c.err)})
			if os.Getenv("VERIF_STRICT") != "" {
				return 2
			}
			continue
		}
		n := 0
		for _, b := range fn.Blocks {
			n += len(b.Instrs)
		}
		classes := map[string]bool{}
		pre := c.prelude()
		mt := c.modelTerms()
		for _, o := range c.obls {
			if !hasProp(o.Props, prop) {
				continue
			}
			classes[o.Kind] = true
			if o.NAsserts > 0 && o.NAsserts < len(c.asserts) {
				o.Query = buildQuery(c.preludeUpTo(o.NAsserts), o, mt)
			} else {
				o.Query = buildQuery(pre, o, mt)
			}
			rr.obls = append(rr.obls, o)
			rr.ctxOf[o] = c
			// cover of a guarded call site: the site is reachable under the facts assumed
			// when its requirement was generated (a requirement proved only because the
			// facts the contracts state contradict each other there proves nothing)
			if o.Kind == "G" && o.Reach != "" && o.Reach != "true" && o.Reach != "false" && o.Cond != "true" {
				q := o.Query
				if i := strings.LastIndex(q, "(assert (not "+o.Cond+"))\n"); i >= 0 {
					q = q[:i] + "(check-sat)\n"
					rr.siteCovers = append(rr.siteCovers, &Obl{Name: o.Name + ".site-cover", Kind: "cover", Fn: o.Fn, Props: o.Props, Query: q})
					rr.siteOf = append(rr.siteOf, o)
				}
			}
		}
		// cover: some return reachable under the assumptions
		if len(c.retReach) > 0 && hasProp(con.Props, prop) {
			cov := &Obl{Name: c.fnName() + ".cover.return", Kind: "cover", Fn: c.fnName(), Props: []string{prop}}
			cov.Query = pre + "(assert " + sOr(c.retReach...) + ")\n(check-sat)\n"
			rr.covers = append(rr.covers, cov)
		}
		for d := range c.usedDeps {
			rr.deps[d] = true
		}
		for d := range c.definesUsed {
			definesUsed[d] = true
		}
		var cl []string
		for k := range classes {
			cl = append(cl, k)
		}
		sort.Strings(cl)
		rr.funcs = append(rr.funcs, funcReport{Name: fn.String(), Pos: relPos(P, fn), Instrs: n, Blocks: len(fn.Blocks), Loops: len(c.loopOrd), Mode: c.mode, Classes: strings.Join(cl, ""), Dropped: c.dropped, Uncontracted: c.uncontracted, Inlined: c.inlined, Contract: fmt.Sprintf("%s:%d", relFile(P, con.File), con.Line)})
	}
	// rule coverage: every rule must have matched at least one call site
	for _, r := range rules {
		if ruleHits[r.Name] == 0 && *flagFunc == "" && !r.Optional && len(r.Requires) == 0 {
			// a rule that only states facts / purity: without a call site the facts are simply
			// never established, and obligations that need them fail on their own
			fmt.Printf("NOTE callrule %s matched no call site\n", r.Name)
			continue
		}
		if ruleHits[r.Name] == 0 && *flagFunc == "" && !r.Optional {
			// A rule with requirements constrains calls that exist on the unchanged tree
			// (every run there checks this). With the current code none of them exists: the
			// guarded step was removed or replaced, and what the rule stood for cannot be
			// shown any more. Like a contract that no longer binds, this is reported as an
			// undischarged obligation, not as a pass (and not as a broken check: the unchanged
			// tree does not get here).
			rr.unbound = append(rr.unbound, [2]string{"callrule:" + r.Name, "the rule matches no call site in the current code (callees: " + strings.Join(r.Callees, ", ") + ")"})
			fmt.Printf("UNDECIDED callrule %s matched no call site\n", r.Name)
		}
	}

	// 3. lemmas
	lemmaObls := lemmaObligations(P, prop)
	rr.obls = append(rr.obls, lemmaObls...)

	// 4. frame scans
	var frameNotes []string
	frameViol := 0
	for _, fr := range P.CS.Frames {
		if !hasProp(fr.Props, prop) {
			continue
		}
		viol, sites := P.scanFrame(fr)
		o := &Obl{Name: "frame[" + fr.Effect + "]", Kind: "frame", Props: []string{prop}, Src: fr.Effect + " only in " + strings.Join(fr.OnlyIn, ", ")}
		if sites == 0 {
			fmt.Printf("BROKEN-CHECK frame %s matched no site (vacuous)\n", fr.Effect)
			return 2
		}
		if len(viol) == 0 {
			o.Status = "discharged"
			o.Res = SolverRes{Result: "unsat", Solver: "syntactic-scan"}
		} else {
			o.Status = "failed"
			o.Res = SolverRes{Result: "sat", Solver: "syntactic-scan", Output: fmt.Sprint(viol)}
			frameViol++
		}
		frameNotes = append(frameNotes, fmt.Sprintf("%s: %d sites, %d outside the allowed functions", fr.Effect, sites, len(viol)))
		rr.obls = append(rr.obls, o)
	}

	if len(rr.obls) == 0 {
		fmt.Println("BROKEN-CHECK no obligations generated")
		return 2
	}
	// vacuity guard: far fewer obligations than this property had when its contracts were
	// last recorded means contracts no longer attach to it (lost attribution, renamed
	// function) - the check would pass for lack of anything to prove
	tooFew := cfg.Expect > 0 && *flagFunc == "" && len(rr.obls) < cfg.Expect
	nObls := len(rr.obls)
	if *flagDump != "" {
		os.MkdirAll(*flagDump, 0o755)
		for i, o := range rr.obls {
			os.WriteFile(filepath.Join(*flagDump, fmt.Sprintf("%03d_%s.smt2", i, sanitize(o.Name))), []byte(o.Query), 0o644)
		}
	}

	// 5. discharge
	discharge(rr.obls, timeout, *flagTier == "thorough")
	dischargeCovers(rr.covers, timeout)
	dischargeCovers(rr.siteCovers, timeout)
	for i, cov := range rr.siteCovers {
		if cov.Res.Result == "unsat" && rr.siteOf[i].Status == "discharged" {
			o := rr.siteOf[i]
			o.Status = "undecided"
			o.Res = SolverRes{Result: "unknown", Solver: "site-cover", Output: "the guarded call site is unreachable under the facts the contracts state about the code before it: the facts contradict each other there, i.e. the contracts no longer describe this code (typically a second call of a function whose answer a rule fixes to one ghost constant)"}
		}
	}
	for _, cov := range rr.covers {
		if cov.Res.Result == "unsat" {
			fmt.Printf("BROKEN-CHECK vacuous: no return of %s is reachable under its contract assumptions\n", cov.Fn)
			return 2
		}
	}

	// 6. bounded stand-ins (never counted as proved)
	var bounded []map[string]any
	var smoke []map[string]any
	boundedViol := 0
	for _, b := range cfg.Bounded {
		if b.Tier == "thorough" && *flagTier != "thorough" {
			continue
		}
		status, out, secs := runInjectedTest(P, filepath.Join(*flagVerif, "bounded", prop, b.File), b.PkgDir, b.Run, false, 600)
		bounded = append(bounded, map[string]any{"name": b.Name, "bound": b.Bound, "result": status, "seconds": secs})
		if status == "error" {
			// the stand-in does not build against the current tree (e.g. a renamed function): undecided, not a violation
			fmt.Printf("UNDECIDED bounded stand-in %s does not run on this tree\n", b.Name)
			rr.undecided = append(rr.undecided, "bounded stand-in "+b.Name+": "+truncate(out, 400))
		}
		if status == "fail" {
			boundedViol++
			rp := writeReplayFile(prop, "bounded."+b.Name, "bounded stand-in "+b.Name+" failed (bound: "+b.Bound+")\n\n"+out)
			// a recorded finding covers a failing stand-in only if it is still open (a fixed entry
			// suppresses nothing) and the output carries none of the marks the entry excludes
			// (so that a different failure of the same stand-in is still reported)
			kf := matchKnown(known, prop, "bounded."+b.Name)
			if kf != nil && kf.Status != "fixed" && kf.UnlessOutput != "" {
				if re, err := regexp.Compile(kf.UnlessOutput); err != nil || re.MatchString(out) {
					kf = nil
				}
			}
			if kf != nil && kf.Status != "fixed" {
				fmt.Printf("KNOWN-FINDING: property=%s %s\n", prop, kf.What)
				boundedViol--
			} else {
				fmt.Printf("VIOLATION property=%s replay=%s\n", prop, rp)
			}
		}
	}

	// 6b. undecided functions: the replay templates run with their stored boundary inputs
	smokeViol := 0
	if needSmoke || *flagTier == "thorough" {
		done := map[string]bool{}
		for _, rs := range cfg.Replays {
			if done[rs.Template] || rs.Known {
				continue
			}
			done[rs.Template] = true
			src, err := renderTemplate(filepath.Join(*flagVerif, "replay", prop, rs.Template), map[string]string{}, &Obl{Name: "smoke"})
			if err != nil {
				continue
			}
			tmp := filepath.Join(scratch(), "smoke_"+sanitize(rs.Template)+"_test.go")
			os.WriteFile(tmp, []byte(src), 0o644)
			status, out, _ := runInjectedTest(P, tmp, rs.PkgDir, rs.Run, rs.Ext, 300)
			smoke = append(smoke, map[string]any{"template": rs.Template, "result": status})
			if status == "fail" {
				smokeViol++
				rp := writeReplayFile(prop, "smoke."+rs.Template, "replay template "+rs.Template+" run with its stored boundary inputs on the current tree failed\n\n"+out)
				fmt.Printf("VIOLATION property=%s replay=%s obligation=replay-smoke[%s] confirmed-on-real-code\n", prop, rp, rs.Template)
			}
		}
	}

	// 7. report
	violations := 0
	solverErrors := 0
	discharged := 0
	var oblReports []map[string]any
	var samples []any
	var solverMs int64
	var knownHit []string
	byBackend := map[string]int{}
	for _, o := range rr.obls {
		rep := map[string]any{"name": o.Name, "kind": o.Kind, "solver": o.Res.Solver, "ms": o.Res.Ms, "result": o.Res.Result}
		solverMs += o.Res.Ms
		switch {
		case o.Status == "discharged":
			discharged++
			byBackend[o.Res.Solver]++
		default:
			// failed or undecided: decide between known finding / violation
			name := o.Name
			kf := matchKnown(known, prop, name)
			if kf != nil && kf.Status != "fixed" {
				// is the failure inside the recorded region?
				inside := true
				if kf.Region != "" && o.Query != "" {
					q2 := strings.Replace(o.Query, "(check-sat)", "(assert (not "+kf.Region+"))\n(check-sat)", 1)
					r2 := solve(q2, timeout, false)
					inside = r2.Result == "unsat"
				}
				if inside {
					if !knownPrinted[kf.What] {
						knownPrinted[kf.What] = true
						fmt.Printf("KNOWN-FINDING: property=%s %s [obligation %s]\n", prop, kf.What, name)
					}
					knownHit = append(knownHit, name)
					rep["known_finding"] = kf.What
					o.Known = kf.What
					oblReports = append(oblReports, rep)
					continue
				}
			}
			if o.Res.Result == "error" {
				fmt.Printf("BROKEN-CHECK every solver rejected the query of %s: %s\n", name, truncate(strings.TrimSpace(o.Res.Output), 300))
				solverErrors++
				oblReports = append(oblReports, rep)
				continue
			}
			violations++
			rp := handleFailure(P, prop, cfg, o, rr.ctxOf[o])
			rep["replay"] = rp
		}
		oblReports = append(oblReports, rep)
		if len(samples) < 3 && o.Query != "" && o.Kind != "cover" {
			q := o.Query
			if len(q) > 1500 {
				q = q[len(q)-1500:]
			}
			samples = append(samples, map[string]any{"obligation": o.Name, "clause": o.Src, "smtlib_tail": q})
		}
	}
	if len(samples) == 0 {
		for _, o := range rr.obls {
			samples = append(samples, map[string]any{"obligation": o.Name, "clause": o.Src})
			if len(samples) >= 3 {
				break
			}
		}
	}
	violations += boundedViol + smokeViol

	// evidence
	total := len(rr.obls)
	claimed := total - len(knownHit)
	var assumed []string
	var depNames []string
	for d := range rr.deps {
		depNames = append(depNames, d)
	}
	sort.Strings(depNames)
	for _, d := range depNames {
		con := P.CS.Deps[d]
		var es []string
		for _, e := range con.Ensures {
			es = append(es, e.Src)
		}
		assumed = append(assumed, fmt.Sprintf("assumed contract of %s: ensures %s", d, strings.Join(es, " && ")))
	}
	for _, ax := range P.CS.Axioms {
		if !ax.Lemma && hasProp(ax.Props, prop) {
			assumed = append(assumed, "axiom "+ax.Name+": "+ax.Src)
		}
	}
	assumed = append(assumed, ifaceAssumed...)
	var dl []string
	for d := range definesUsed {
		if strings.HasPrefix(d, "validity assumed") {
			dl = append(dl, d)
			continue
		}
		dl = append(dl, "definitional ghost link (assumed at call sites, not proved in the body): "+d)
	}
	sort.Strings(dl)
	assumed = append(assumed, dl...)
	assumed = append(assumed, cfg.Assume...)
	trusted := append([]string{"go/packages+go/types+go/ssa (x/tools v0.50.0): SSA taken as the meaning of the source", "govc VC generator and memory model (/verif/govc)", "SMT solvers z3 4.8.12, z3 5.1.0, cvc5 1.0.3", "sequential execution of one invocation (goroutines, channels, locks not modelled)"}, cfg.Trusted...)
	ev := map[string]any{
		"property_id": prop,
		"tier":        *flagTier,
		"seed":        seed,
		"level":       "proof",
		"wall_s":      time.Since(t0).Seconds(),
		"violations":  violations,
		"assumptions": assumed,
		"coverage": map[string]any{
			"obligations":              claimed,
			"discharged":               discharged,
			"checker_cmd":              fmt.Sprintf("/verif/check %s --tier %s", prop, *flagTier),
			"trusted_base":             trusted,
			"samples":                  samples,
			"functions_under_contract": rr.funcs,
			"obligation_results":       oblReports,
			"discharged_by_backend":    byBackend,
			"solver_ms_total":          solverMs,
			"covers_checked":           len(rr.covers),
			"undecided":                rr.undecided,
			"known_findings_hit":       knownHit,
			"bounded_standins":         bounded,
			"replay_smoke_runs":        smoke,
			"frame_scans":              frameNotes,
			"callrule_sites":           ruleHits,
			"contract_files":           P.contractFiles,
			"solver_versions":          []string{"z3 4.8.12", "z3 5.1.0 (z3-new)", "cvc5 1.0.3"},
		},
	}
	if !*flagNoEvid {
		os.MkdirAll(filepath.Join(*flagVerif, "evidence"), 0o755)
		b, _ := json.MarshalIndent(ev, "", " ")
		os.WriteFile(filepath.Join(*flagVerif, "evidence", prop+".json"), b, 0o644)
	}
	// A function under contract whose obligations can no longer be generated (its contract
	// names a loop, a local or a callee shape the code no longer has; the function is gone):
	// on the unchanged tree these obligations exist and are discharged, now none of them is.
	// They count as undischarged obligations of this property (reported like a solver
	// time-out: a violation without a failing input), not as a pass.
	for _, u := range rr.unbound {
		name := u[0] + ".contract-binding"
		if kf := matchKnown(known, prop, name); kf != nil && kf.Status != "fixed" {
			continue
		}
		rp := writeReplayFile(prop, name, "the contract of "+u[0]+" no longer binds to the code: "+u[1]+"\n\nOn the unchanged tree the obligations of this function are generated and discharged; with the current code none of them can be generated, so nothing is proved about this function any more.\n")
		fmt.Printf("VIOLATION property=%s replay=%s obligation=%s no-failing-input-found\n", prop, rp, name)
		violations++
	}
	fmt.Printf("property %s: %d obligations, %d discharged, %d known findings, %d violations, %d functions, %.1fs\n", prop, total, discharged, len(knownHit), violations, len(rr.funcs), time.Since(t0).Seconds())
	if solverErrors > 0 && violations == 0 {
		return 2
	}
	if violations > 0 {
		return 1
	}
	if tooFew {
		fmt.Printf("BROKEN-CHECK only %d obligations generated, at least %d expected (min_obligations in props.json): contracts of this property no longer attach\n", nObls, cfg.Expect)
		return 2
	}
	return 0
}

func flagSet(name string) bool {
	set := false
	flag.Visit(func(f *flag.Flag) {
		if f.Name == name {
			set = true
		}
	})
	return set
}

func pkgOfFile(P *Program, file string) string {
	for pk, f := range P.contractFiles {
		if f == file {
			return pk
		}
	}
	return ""
}

func relPos(P *Program, fn *ssa.Function) string {
	pos := P.Prog.Fset.Position(fn.Pos())
	return fmt.Sprintf("%s:%d", relFile(P, pos.Filename), pos.Line)
}

func relFile(P *Program, f string) string {
	if r, err := filepath.Rel(P.Repo, f); err == nil && !strings.HasPrefix(r, "..") {
		return r
	}
	return f
}

func buildQuery(prelude string, o *Obl, modelTerms []string) string {
	var sb strings.Builder
	sb.WriteString(prelude)
	sb.WriteString("(assert " + o.Reach + ")\n")
	sb.WriteString("(assert (not " + o.Cond + "))\n")
	sb.WriteString("(check-sat)\n")
	if len(modelTerms) > 0 {
		sb.WriteString("(get-value (" + strings.Join(modelTerms, " ") + "))\n")
	}
	return sb.String()
}

func discharge(obls []*Obl, timeout int, all bool) {
	var wg sync.WaitGroup
	sem := make(chan struct{}, *flagJobs)
	for _, o := range obls {
		if o.Status != "" {
			continue
		}
		if o.Cond == "true" || o.Reach == "false" {
			o.Status = "discharged"
			o.Res = SolverRes{Result: "unsat", Solver: "trivial"}
			continue
		}
		wg.Add(1)
		sem <- struct{}{}
		go func(o *Obl) {
			defer wg.Done()
			defer func() { <-sem }()
			if o.Prefer != "" && !all {
				// contract option solver=<name>: try that back end alone first
				for _, sp := range solvers {
					if strings.HasPrefix(sp.name, o.Prefer) {
						o.Res = raceSolvers([]solverSpec{sp}, o.Query, timeout, false)
					}
				}
			}
			if o.Res.Result != "unsat" && o.Res.Result != "sat" {
				o.Res = solve(o.Query, timeout, all)
			}
			switch o.Res.Result {
			case "unsat":
				o.Status = "discharged"
			case "sat":
				o.Status = "failed"
			default:
				o.Status = "undecided"
			}
			if *flagV {
				fmt.Printf("  %-12s %-10s %5dms %s\n", o.Res.Result, o.Res.Solver, o.Res.Ms, o.Name)
			}
		}(o)
	}
	wg.Wait()
}

func dischargeCovers(covers []*Obl, timeout int) {
	var wg sync.WaitGroup
	sem := make(chan struct{}, *flagJobs)
	for _, o := range covers {
		wg.Add(1)
		sem <- struct{}{}
		go func(o *Obl) {
			defer wg.Done()
			defer func() { <-sem }()
			// only a definite `unsat` (vacuity) matters; `sat`/`unknown` are both fine
			o.Res = raceSolvers(solvers, o.Query, 3, false)
		}(o)
	}
	wg.Wait()
}

func matchKnown(known []KnownFinding, prop, name string) *KnownFinding {
	for i := range known {
		k := &known[i]
		if k.Property != prop {
			continue
		}
		re, err := regexp.Compile("^(?:" + k.Obligation + ")$")
		if err != nil {
			continue
		}
		if re.MatchString(name) {
			return k
		}
	}
	return nil
}
