package main

// Evaluation of contract expressions to SMT terms.

import (
	"sort"
	"fmt"
	"go/ast"
	"go/token"
	"go/types"
	"math/big"
	"path"
	"strconv"
	"strings"

	"golang.org/x/tools/go/ssa"
)

const tokLSS = token.LSS

type Env struct {
	c        *Ctx
	names    map[string]*Val
	st, old  *State
	noLocals bool
	pkgPath  string
	inOld    bool
	oldNames map[string]*Val // iteration clauses: loop variables at the head of the iteration
}

func (e *Env) child() *Env {
	n := *e
	n.names = map[string]*Val{}
	for k, v := range e.names {
		n.names[k] = v
	}
	return &n
}

func (c *Ctx) baseEnv(st, old *State) *Env {
	env := &Env{c: c, names: map[string]*Val{}, st: st, old: old, pkgPath: fnPkgPath(c.fn)}
	for k, v := range c.paramVals {
		env.names[k] = v
	}
	// positional aliases of the function's own parameters (p0 = receiver for methods)
	if c.fn != nil {
		for i, p := range c.fn.Params {
			if v := c.vals[p]; v != nil {
				env.names[fmt.Sprintf("p%d", i)] = v
				// reqparam: the first parameter of type *XxxRequest (RPC handlers)
				if _, have := env.names["reqparam"]; !have {
					if pt, ok := p.Type().(*types.Pointer); ok {
						if n, ok := pt.Elem().(*types.Named); ok && strings.HasSuffix(n.Obj().Name(), "Request") {
							env.names["reqparam"] = v
						}
					}
				}
			}
		}
	}
	return env
}

func (c *Ctx) evalBool(e *Expr, env *Env, what string) string {
	save := c.inSpec
	c.inSpec = true
	defer func() { c.inSpec = save }()
	v := c.evalExpr(e, env)
	if v == nil || v.K != VScalar {
		c.specErr("%s: expression %s is not boolean", what, e)
		return "true"
	}
	return v.S
}

func (c *Ctx) specErr(format string, a ...any) {
	if c.err == nil {
		c.err = fmt.Errorf("contract error in %s: %s", c.fnName(), fmt.Sprintf(format, a...))
	}
}

func litVal(n *big.Int) *Val { return &Val{K: VScalar, Lit: n} }

// coerce an untyped literal to the type of the other operand
func (c *Ctx) coerce(v *Val, like *Val) *Val {
	if v.Lit == nil {
		return v
	}
	if like.Wide {
		return &Val{K: VScalar, T: theWide, Wide: true, S: c.intConst(v.Lit, theWide)}
	}
	if like.Lit != nil || like.T == nil {
		return &Val{K: VScalar, T: theWide, Wide: true, S: c.intConst(v.Lit, theWide)}
	}
	if _, _, ok := intInfo(like.T); ok {
		return &Val{K: VScalar, T: like.T, S: c.intConst(v.Lit, like.T)}
	}
	if c.scalarSort(like.T) == "Int" && v.Lit.Sign() == 0 {
		return &Val{K: VScalar, T: like.T, S: "0"}
	}
	return &Val{K: VScalar, T: theWide, Wide: true, S: c.intConst(v.Lit, theWide)}
}

func (c *Ctx) coerceTo(v *Val, t types.Type) *Val {
	if v.Lit == nil {
		if _, isW := t.(*wideType); isW && !v.Wide {
			return c.widen(v)
		}
		return v
	}
	if _, isW := t.(*wideType); isW {
		return &Val{K: VScalar, T: theWide, Wide: true, S: c.intConst(v.Lit, theWide)}
	}
	return &Val{K: VScalar, T: t, S: c.intConst(v.Lit, t)}
}

func (c *Ctx) widen(v *Val) *Val {
	if v.Wide {
		return v
	}
	if v.Lit != nil {
		return &Val{K: VScalar, T: theWide, Wide: true, S: c.intConst(v.Lit, theWide)}
	}
	if c.mode == "int" {
		return &Val{K: VScalar, T: theWide, Wide: true, S: v.S}
	}
	bits, signed, ok := intInfo(v.T)
	if !ok {
		c.specErr("wide() of non-integer %s : %v", v.S, v.T)
		return v
	}
	if signed {
		return &Val{K: VScalar, T: theWide, Wide: true, S: fmt.Sprintf("((_ sign_extend %d) %s)", c.wideBits()-bits, v.S)}
	}
	return &Val{K: VScalar, T: theWide, Wide: true, S: fmt.Sprintf("((_ zero_extend %d) %s)", c.wideBits()-bits, v.S)}
}

func (c *Ctx) binopNoObl(op token.Token, a, b *Val) *Val {
	save := c.inSpec
	c.inSpec = true
	defer func() { c.inSpec = save }()
	return c.specBin(op, a, b)
}

// specBin: binary operator in specifications: mathematical in int mode (no obligations),
// Go machine semantics in bv mode unless operands are wide.
func (c *Ctx) specBin(op token.Token, a, b *Val) *Val {
	if a.Lit != nil && b.Lit != nil {
		r := new(big.Int)
		switch op {
		case token.ADD:
			return litVal(r.Add(a.Lit, b.Lit))
		case token.SUB:
			return litVal(r.Sub(a.Lit, b.Lit))
		case token.MUL:
			return litVal(r.Mul(a.Lit, b.Lit))
		case token.QUO:
			if b.Lit.Sign() != 0 {
				return litVal(r.Quo(a.Lit, b.Lit))
			}
		case token.REM:
			if b.Lit.Sign() != 0 {
				return litVal(r.Rem(a.Lit, b.Lit))
			}
		case token.SHL:
			return litVal(r.Lsh(a.Lit, uint(b.Lit.Int64())))
		case token.SHR:
			return litVal(r.Rsh(a.Lit, uint(b.Lit.Int64())))
		}
	}
	if op == token.SHL || op == token.SHR {
		if a.Lit != nil {
			a = c.widen(a)
		}
		if b.Lit != nil {
			if a.Wide {
				b = c.widen(b)
			} else {
				b = c.coerceTo(b, types.Typ[types.Uint64])
			}
		}
	} else {
		if a.Wide != b.Wide && a.Lit == nil && b.Lit == nil {
			a, b = c.widen(a), c.widen(b)
		}
		a, b = c.coerce(a, b), c.coerce(b, a)
	}
	var rt types.Type = a.T
	switch op {
	case token.EQL, token.NEQ, token.LSS, token.LEQ, token.GTR, token.GEQ:
		rt = types.Typ[types.Bool]
	}
	if c.mode == "int" {
		// mathematical, no obligations
		res := &Val{K: VScalar, T: rt, Wide: a.Wide && rt != types.Typ[types.Bool]}
		x, y := a.S, b.S
		switch op {
		case token.ADD:
			res.S = "(+ " + x + " " + y + ")"
		case token.SUB:
			res.S = "(- " + x + " " + y + ")"
		case token.MUL:
			res.S = "(* " + x + " " + y + ")"
		case token.QUO:
			res.S = "(div " + x + " " + y + ")"
		case token.REM:
			res.S = "(mod " + x + " " + y + ")"
		case token.LSS:
			res.S = "(< " + x + " " + y + ")"
		case token.LEQ:
			res.S = "(<= " + x + " " + y + ")"
		case token.GTR:
			res.S = "(> " + x + " " + y + ")"
		case token.GEQ:
			res.S = "(>= " + x + " " + y + ")"
		case token.EQL:
			res.S = c.eqVal(a, b)
		case token.NEQ:
			res.S = sNot(c.eqVal(a, b))
		case token.SHL:
			if k, ok := constIntTerm(y); ok && k >= 0 && k < 600 {
				res.S = "(* " + x + " " + pow2(int(k)).String() + ")"
			} else {
				c.specErr("symbolic shift in int-mode spec")
				res.S = x
			}
		case token.SHR:
			if k, ok := constIntTerm(y); ok && k >= 0 && k < 600 {
				res.S = "(div " + x + " " + pow2(int(k)).String() + ")"
			} else {
				c.specErr("symbolic shift in int-mode spec")
				res.S = x
			}
		default:
			c.specErr("operator %s unsupported in int-mode spec", op)
			res.S = x
		}
		// spec integer results are mathematical
		if rt != types.Typ[types.Bool] {
			res.T = theWide
			res.Wide = true
		}
		return res
	}
	if a.K != VScalar || isBool(a.T) || isString(a.T) || (!a.Wide && c.scalarSort(a.T) == "Int") {
		return c.binop(op, a, b, rt, "spec")
	}
	if a.Wide {
		a2 := *a
		a2.T = theWide
		b2 := *b
		b2.T = theWide
		if op == token.SHL || op == token.SHR {
			b2.T = types.Typ[types.Uint64]
			if b.Wide {
				b2.S = "((_ extract 63 0) " + b.S + ")"
			}
		}
		r := c.binop(op, &a2, &b2, rt, "spec")
		if rt != types.Typ[types.Bool] {
			r.Wide = true
			r.T = theWide
		} else {
			r.Wide = false
		}
		return r
	}
	return c.binop(op, a, b, rt, "spec")
}

var tokOf = map[string]token.Token{
	"+": token.ADD, "-": token.SUB, "*": token.MUL, "/": token.QUO, "%": token.REM,
	"&": token.AND, "|": token.OR, "^": token.XOR, "&^": token.AND_NOT, "<<": token.SHL, ">>": token.SHR,
	"==": token.EQL, "!=": token.NEQ, "<": token.LSS, "<=": token.LEQ, ">": token.GTR, ">=": token.GEQ,
}

func (c *Ctx) evalExpr(e *Expr, env *Env) *Val {
	switch e.Op {
	case "num":
		n, ok := new(big.Int).SetString(e.Name, 0)
		if !ok {
			c.specErr("bad number %s", e.Name)
			n = big.NewInt(0)
		}
		return litVal(n)
	case "str":
		return &Val{K: VScalar, T: types.Typ[types.String], S: c.strLit(e.Name)}
	case "id":
		return c.evalIdent(e.Name, env)
	case "un":
		x := c.evalExpr(e.Args[0], env)
		if x == nil {
			return nil
		}
		switch e.Name {
		case "!":
			return &Val{K: VScalar, T: types.Typ[types.Bool], S: sNot(x.S)}
		case "-":
			if x.Lit != nil {
				return litVal(new(big.Int).Neg(x.Lit))
			}
			return c.specBin(token.SUB, litVal(big.NewInt(0)), x)
		case "^":
			if c.mode == "int" {
				c.specErr("^ unsupported in int-mode spec")
				return x
			}
			n := *x
			n.S = "(bvnot " + x.S + ")"
			return &n
		}
	case "bin":
		switch e.Name {
		case "&&", "||", "==>", "<==>":
			a := c.evalExpr(e.Args[0], env)
			b := c.evalExpr(e.Args[1], env)
			if a == nil || b == nil {
				return &Val{K: VScalar, T: types.Typ[types.Bool], S: "true"}
			}
			var s string
			switch e.Name {
			case "&&":
				s = sAnd(a.S, b.S)
			case "||":
				s = sOr(a.S, b.S)
			case "==>":
				s = sImp(a.S, b.S)
			case "<==>":
				s = sEq(a.S, b.S)
			}
			return &Val{K: VScalar, T: types.Typ[types.Bool], S: s}
		}
		a := c.evalExpr(e.Args[0], env)
		b := c.evalExpr(e.Args[1], env)
		if a == nil || b == nil {
			return nil
		}
		op, ok := tokOf[e.Name]
		if !ok {
			c.specErr("unknown operator %s", e.Name)
			return a
		}
		if (op == token.EQL || op == token.NEQ) && (a.K == VSlice) != (b.K == VSlice) {
			// slice == nil / slice != nil: the nil slice has no backing array
			sl, other := a, b
			if b.K == VSlice {
				sl, other = b, a
			}
			if other.K == VScalar && other.Lit != nil && other.Lit.Sign() == 0 {
				// (the same encoding as the code's own comparison with the nil slice value)
				z := c.idxConst(0)
				s := sAnd(sEq(sl.Arr, "0"), sEq(sl.Off, z), sEq(sl.Len, z), sEq(sl.Cap, z))
				if op == token.NEQ {
					s = sNot(s)
				}
				return &Val{K: VScalar, T: types.Typ[types.Bool], S: s}
			}
		}
		if (op == token.EQL || op == token.NEQ) && a.Lit == nil && b.Lit == nil && (a.K != VScalar || b.K != VScalar) {
			s := c.eqVal(a, b)
			if op == token.NEQ {
				s = sNot(s)
			}
			return &Val{K: VScalar, T: types.Typ[types.Bool], S: s}
		}
		return c.specBin(op, a, b)
	case "sel":
		return c.evalSel(e, env)
	case "idx":
		return c.evalIndex(e, env)
	case "slice":
		x := c.evalExpr(e.Args[0], env)
		if x == nil {
			return nil
		}
		if x.K != VSlice && x.T != nil && isString(x.T) {
			lo, hi := c.idxConst(0), sApp(c.strLenFn(), x.S)
			if e.Args[1] != nil {
				v := c.evalExpr(e.Args[1], env)
				if v == nil {
					return nil
				}
				lo = c.specIdx(v)
			}
			if e.Args[2] != nil {
				v := c.evalExpr(e.Args[2], env)
				if v == nil {
					return nil
				}
				hi = c.specIdx(v)
			}
			return c.strSubSpec(x, lo, hi)
		}
		if x.K != VSlice {
			c.specErr("slice expression on non-slice in spec")
			return x
		}
		lo, hi := c.idxConst(0), x.Len
		if e.Args[1] != nil {
			lo = c.specIdx(c.evalExpr(e.Args[1], env))
		}
		if e.Args[2] != nil {
			hi = c.specIdx(c.evalExpr(e.Args[2], env))
		}
		return &Val{K: VSlice, T: x.T, Arr: x.Arr, Off: c.idxAdd(x.Off, lo), Len: c.idxSub(hi, lo), Cap: c.idxSub(x.Cap, lo)}
	case "forall", "exists":
		t := c.resolveType(e.BType, env)
		if t == nil {
			c.specErr("unknown type %s in quantifier", e.BType)
			return &Val{K: VScalar, T: types.Typ[types.Bool], S: "true"}
		}
		sub := env.child()
		bn := quoteSym("q!" + e.BVar)
		bv := &Val{K: VScalar, T: t, S: bn}
		sort := c.scalarSort(t)
		if _, isW := t.(*wideType); isW {
			bv.Wide = true
		}
		if sort == "" {
			c.specErr("quantifier over composite type %s", e.BType)
			return &Val{K: VScalar, T: types.Typ[types.Bool], S: "true"}
		}
		sub.names[e.BVar] = bv
		body := c.evalExpr(e.Args[0], sub)
		if body == nil {
			return &Val{K: VScalar, T: types.Typ[types.Bool], S: "true"}
		}
		rf := c.rangeFact(bn, t)
		var s string
		if e.Op == "forall" {
			s = "(forall ((" + bn + " " + sort + ")) " + sImp(rf, body.S) + ")"
		} else {
			s = "(exists ((" + bn + " " + sort + ")) " + sAnd(rf, body.S) + ")"
		}
		return &Val{K: VScalar, T: types.Typ[types.Bool], S: s}
	case "call":
		return c.evalCall(e, env)
	}
	c.specErr("cannot evaluate %s", e)
	return nil
}

func (c *Ctx) specIdx(v *Val) string {
	if v.Lit != nil {
		return c.idxConst(v.Lit.Int64())
	}
	if v.Wide && c.mode != "int" {
		return "((_ extract 63 0) " + v.S + ")"
	}
	return c.toIdx(v)
}

func (c *Ctx) evalIdent(name string, env *Env) *Val {
	switch name {
	case "true", "false":
		return &Val{K: VScalar, T: types.Typ[types.Bool], S: name}
	case "nil":
		return &Val{K: VScalar, Lit: big.NewInt(0)}
	}
	// a parameter that the function re-assigns lives in a variable of the same name: the
	// plain name means its current content, old(name) its value on entry
	if _, isParam := c.paramVals[name]; isParam && !env.noLocals && !env.inOld && c.fn != nil {
		if v := c.currentOfSpilledParam(name, env); v != nil {
			return v
		}
		if v := c.reassignedParam(name); v != nil {
			return v
		}
	}
	if env.inOld && env.oldNames != nil {
		if v, ok := env.oldNames[name]; ok {
			return v
		}
	}
	if v, ok := env.names[name]; ok {
		return v
	}
	if name == "rangepos" && c.fn != nil {
		// byte position of the function's string range iterator (unique one executed so far)
		var found *ssa.Range
		n := 0
		for _, b := range c.fn.Blocks {
			for _, in := range b.Instrs {
				if r, ok := in.(*ssa.Range); ok && isString(r.X.Type()) {
					if _, have := c.vals[r]; have {
						found = r
						n++
					}
				}
			}
		}
		if n == 1 {
			st := env.st
			if env.inOld {
				st = env.old
			}
			return c.strIterPos(found, st)
		}
		c.specErr("rangepos: the function has %d string range loops in scope", n)
		return nil
	}
	if g, ok := c.P.CS.Ghosts[name]; ok && g.Kind == "var" {
		return c.ghostRead(g, nil, env)
	}
	if !env.noLocals {
		if v := c.lookupLocalName(name, env); v != nil {
			return v
		}
	}
	// package-level constant or variable
	if v := c.lookupPkgName(name, env); v != nil {
		return v
	}
	c.specErr("unknown name %q", name)
	return nil
}

// lookupLocalName: allocs by variable name (current content), or a unique SSA value bound to the name
func (c *Ctx) lookupLocalName(name string, env *Env) *Val {
	st := env.st
	if env.inOld {
		st = env.old
	}
	var found *ssa.Alloc
	n := 0
	for _, b := range c.fn.Blocks {
		for _, in := range b.Instrs {
			if a, ok := in.(*ssa.Alloc); ok && a.Comment == name {
				if _, have := c.vals[a]; have {
					found = a
					n++
				}
			}
		}
	}
	if n == 1 {
		p := c.vals[found]
		return c.load(p, found.Type().Underlying().(*types.Pointer).Elem(), st)
	}
	if n > 1 && c.curBlk != nil {
		// several variables of that name (one per clause of a type switch, per branch): the
		// one in scope is the one whose declaration dominates the current point; when the
		// source scopes nest, none of this applies and the older resolution below decides
		var dom []*ssa.Alloc
		for _, b := range c.fn.Blocks {
			for _, in := range b.Instrs {
				if a, ok := in.(*ssa.Alloc); ok && a.Comment == name {
					if _, have := c.vals[a]; have && a.Block() != c.curBlk && a.Block().Dominates(c.curBlk) {
						dom = append(dom, a)
					}
				}
			}
		}
		if len(dom) == 1 && !a0DebugNamed(c, name, dom[0]) {
			p := c.vals[dom[0]]
			return c.load(p, dom[0].Type().Underlying().(*types.Pointer).Elem(), st)
		}
	}
	vs := c.dbg[name]
	uniq := map[ssa.Value]bool{}
	var last ssa.Value
	for _, v := range vs {
		if _, have := c.vals[v]; have {
			if !uniq[v] {
				uniq[v] = true
				last = v
			}
		}
	}
	if len(uniq) == 1 {
		return c.vals[last]
	}
	if len(uniq) == 0 && c.fn != nil {
		// a variable of the function that is not assigned on the way to this point (e.g. a
		// postcondition evaluated at an early return): any value of its type
		for _, b := range c.fn.Blocks {
			for _, in := range b.Instrs {
				if d, ok := in.(*ssa.DebugRef); ok && !d.IsAddr {
					if o := d.Object(); o == nil || o.Pkg() == nil || o.Parent() == o.Pkg().Scope() {
						continue // package-level objects are not local variables
					}
					if id, ok := d.Expr.(*ast.Ident); ok && id.Name == name {
						return c.freshVal(d.X.Type(), "unassigned_"+name)
					}
				}
			}
		}
	}
	if len(uniq) > 1 {
		// a loop-carried variable of an enclosing loop: its phi is the value in scope
		var phi ssa.Value
		np := 0
		for v := range uniq {
			if p, ok := v.(*ssa.Phi); ok && p.Comment == name {
				phi = v
				np++
			}
		}
		if np == 1 {
			return c.vals[phi]
		}
		// several definitions: the one in scope at the current program point is the
		// definition closest to it among those that dominate it
		if c.curBlk != nil {
			// the program points at which the name stood for each value: the places where
			// the source mentions the variable (assignments and reads alike); the value
			// itself may have been computed much earlier (x = y binds x to y's old value)
			var best ssa.Value
			var bestIn ssa.Instruction
			tie := false
			for v := range uniq {
				var at []ssa.Instruction
				if c.dbgAt != nil && c.dbgAt[name] != nil {
					at = c.dbgAt[name][v]
				}
				if len(at) == 0 {
					if in, ok := v.(ssa.Instruction); ok {
						at = []ssa.Instruction{in}
					}
				}
				for _, in := range at {
					if in.Block() == nil || !(in.Block() == c.curBlk || in.Block().Dominates(c.curBlk)) {
						continue
					}
					if best == nil {
						best, bestIn = v, in
						continue
					}
					bb := bestIn.Block()
					switch {
					case bb == in.Block():
						// two mentions in one block: the later instruction is the one in scope
						if instrIndex(in) > instrIndex(bestIn) {
							best, bestIn = v, in
						}
					case bb.Dominates(in.Block()):
						best, bestIn, tie = v, in, false
					}
				}
			}
			if best != nil && !tie {
				return c.vals[best]
			}
			if best == nil {
				// not assigned on the way to this point: any value (the clause must hold for all)
				for v := range uniq {
					return c.freshVal(v.Type(), "unassigned_"+name)
				}
			}
		}
		c.specErr("name %q is ambiguous here (%d SSA values)", name, len(uniq))
	}
	return nil
}

func (c *Ctx) pkgByNameOrPath(name string, env *Env) *types.Package {
	// prefer imports of the contract's package
	if p := c.P.typesPkg[env.pkgPath]; p != nil {
		if p.Name() == name {
			return p
		}
		for _, imp := range p.Imports() {
			if imp.Name() == name || path.Base(imp.Path()) == name {
				return imp
			}
		}
	}
	for _, p := range c.P.allTypesPkgs {
		if p.Name() == name {
			return p
		}
	}
	return nil
}

// lookupQualified finds pkgname.Symbol among all packages carrying that name (several
// packages may share a name such as v2); imports of the contract's package come first.
func (c *Ctx) lookupQualified(pkgName, sym string, env *Env) types.Object {
	var cands []*types.Package
	if p := c.P.typesPkg[env.pkgPath]; p != nil {
		if p.Name() == pkgName {
			cands = append(cands, p)
		}
		for _, imp := range p.Imports() {
			if imp.Name() == pkgName || path.Base(imp.Path()) == pkgName {
				cands = append(cands, imp)
			}
		}
	}
	for _, p := range c.P.allTypesPkgs {
		if p.Name() == pkgName || path.Base(p.Path()) == pkgName {
			cands = append(cands, p)
		}
	}
	for _, p := range cands {
		if o := p.Scope().Lookup(sym); o != nil {
			return o
		}
	}
	return nil
}

func (c *Ctx) lookupPkgName(name string, env *Env) *Val {
	var obj types.Object
	if i := strings.LastIndex(name, "."); i >= 0 {
		obj = c.lookupQualified(name[:i], name[i+1:], env)
	} else if p := c.P.typesPkg[env.pkgPath]; p != nil {
		obj = p.Scope().Lookup(name)
	}
	switch o := obj.(type) {
	case *types.Const:
		if bi, ok := new(big.Int).SetString(o.Val().ExactString(), 10); ok {
			if _, _, isInt := intInfo(o.Type()); isInt {
				if b, ok := o.Type().(*types.Basic); ok && b.Info()&types.IsUntyped != 0 {
					return litVal(bi)
				}
				return &Val{K: VScalar, T: o.Type(), S: c.intConst(bi, o.Type())}
			}
			return litVal(bi)
		}
		if isString(o.Type()) {
			s := o.Val().ExactString()
			if len(s) >= 2 {
				s = s[1 : len(s)-1]
			}
			return &Val{K: VScalar, T: o.Type(), S: c.strLit(s)}
		}
	case *types.Var:
		v := c.globalVal("GL|"+o.Pkg().Path()+"."+o.Name(), o.Type())
		return v
	}
	return nil
}

func (c *Ctx) evalSel(e *Expr, env *Env) *Val {
	// qualified name?
	if q := qualName(e); q != "" {
		if _, isLocal := env.names[rootIdent(e)]; !isLocal {
			if v := c.lookupPkgName(q, env); v != nil {
				return v
			}
		}
	}
	x := c.evalExpr(e.Args[0], env)
	if x == nil {
		return nil
	}
	st := env.st
	if env.inOld {
		st = env.old
	}
	t := x.T
	if t == nil {
		c.specErr("selector %s on untyped value", e.Name)
		return nil
	}
	if pt, ok := t.Underlying().(*types.Pointer); ok {
		// pointer to struct: load the field from the heap
		stT := pt.Elem()
		idx, ft := fieldByName(stT, e.Name)
		if idx == nil {
			c.specErr("no field %s in %s", e.Name, stT)
			return nil
		}
		cur := x
		curT := stT
		for k, i := range idx {
			if k == len(idx)-1 {
				if cur.Loc != nil && cur.Loc.Kind == LLocal {
					root := st.locals[cur.Loc.Alloc]
					return c.projPath(root, append(append([]pathElem(nil), cur.Loc.Path...), pathElem{Field: i}))
				}
				return c.loadField(st, cur.S, curT, i)
			}
			// embedded struct by value or pointer
			f := curT.Underlying().(*types.Struct).Field(i)
			if fp, ok := f.Type().Underlying().(*types.Pointer); ok {
				pv := c.loadField(st, cur.S, curT, i)
				cur, curT = pv, fp.Elem()
			} else {
				cur = &Val{K: VScalar, T: types.NewPointer(f.Type()), S: c.subAddr(curT, i, cur.S)}
				curT = f.Type()
			}
		}
		_ = ft
		return nil
	}
	if _, ok := t.Underlying().(*types.Struct); ok && x.K == VStruct {
		idx, _ := fieldByName(t, e.Name)
		if idx == nil {
			c.specErr("no field %s in %s", e.Name, t)
			return nil
		}
		cur := x
		for _, i := range idx {
			if cur.K != VStruct {
				// embedded pointer inside a struct value
				pt := cur.T.Underlying().(*types.Pointer)
				cur = c.loadField(st, cur.S, pt.Elem(), i)
				continue
			}
			cur = cur.F[i]
		}
		return cur
	}
	c.specErr("selector %s on %s", e.Name, t)
	return nil
}

func rootIdent(e *Expr) string {
	for e.Op == "sel" {
		e = e.Args[0]
	}
	if e.Op == "id" {
		return e.Name
	}
	return ""
}

func fieldByName(t types.Type, name string) ([]int, types.Type) {
	obj, index, _ := types.LookupFieldOrMethod(t, true, nil, name)
	if obj == nil {
		// unexported field from another package: search manually
		return findField(t, name, 0)
	}
	if v, ok := obj.(*types.Var); ok {
		return index, v.Type()
	}
	return nil, nil
}

func findField(t types.Type, name string, depth int) ([]int, types.Type) {
	if depth > 4 {
		return nil, nil
	}
	if p, ok := t.Underlying().(*types.Pointer); ok {
		t = p.Elem()
	}
	st, ok := t.Underlying().(*types.Struct)
	if !ok {
		return nil, nil
	}
	for i := 0; i < st.NumFields(); i++ {
		if st.Field(i).Name() == name {
			return []int{i}, st.Field(i).Type()
		}
	}
	for i := 0; i < st.NumFields(); i++ {
		if st.Field(i).Embedded() {
			if idx, ft := findField(st.Field(i).Type(), name, depth+1); idx != nil {
				return append([]int{i}, idx...), ft
			}
		}
	}
	return nil, nil
}

func (c *Ctx) evalIndex(e *Expr, env *Env) *Val {
	x := c.evalExpr(e.Args[0], env)
	iv := c.evalExpr(e.Args[1], env)
	if x == nil || iv == nil {
		return nil
	}
	st := env.st
	if env.inOld {
		st = env.old
	}
	i := c.specIdx(iv)
	switch {
	case x.K == VSlice:
		et := x.T.Underlying().(*types.Slice).Elem()
		pos := c.idxAdd(x.Off, i)
		if isStruct(et) {
			return c.loadObj(st, c.elemAddr(et, x.Arr, pos), et)
		}
		if _, ok := isScalarArray(et); ok {
			return c.loadObj(st, c.elemAddr(et, x.Arr, pos), et)
		}
		return c.mapReadQuiet(st, elemPrefix(et), []string{x.Arr, pos}, et)
	case x.T != nil && isString(x.T):
		return &Val{K: VScalar, T: types.Typ[types.Uint8], S: sApp(c.strByteFn(), x.S, i)}
	case x.T != nil:
		if mt, ok := x.T.Underlying().(*types.Map); ok {
			key := c.mapKeyTerm(mt, iv)
			has := sAnd(sNot(sEq(x.S, "0")), c.mapHas(st, mt, x.S, key))
			return c.iteVal(has, c.mapGet(st, mt, x.S, key, true), c.zeroVal(mt.Elem()))
		}
		if at, ok := x.T.Underlying().(*types.Array); ok {
			return &Val{K: VScalar, T: at.Elem(), S: "(select " + x.S + " " + i + ")"}
		}
		if pt, ok := x.T.Underlying().(*types.Pointer); ok {
			if at, ok := pt.Elem().Underlying().(*types.Array); ok {
				if x.Loc != nil && x.Loc.Kind == LLocal {
					root := c.projPath(st.locals[x.Loc.Alloc], x.Loc.Path)
					return &Val{K: VScalar, T: at.Elem(), S: "(select " + root.S + " " + i + ")"}
				}
				return c.mapReadQuiet(st, elemPrefix(at.Elem()), []string{x.S, i}, at.Elem())
			}
		}
	}
	c.specErr("cannot index %s", e.Args[0])
	return nil
}

// mapReadQuiet: like mapRead but without adding type-invariant assumptions (spec context,
// possibly under a quantifier)
func (c *Ctx) mapReadQuiet(st *State, prefix string, keys []string, t types.Type) *Val {
	ls := c.leavesOf(t)
	terms := make([]string, len(ls))
	for i, l := range ls {
		name := prefix + l.suffix
		sort := "(Array Int " + l.sort + ")"
		if len(keys) == 2 {
			sort = "(Array Int (Array " + c.idxSort() + " " + l.sort + "))"
		}
		c.registerMap(name, sort)
		m := c.lookup(st, name)
		if len(keys) == 2 {
			terms[i] = "(select (select " + m + " " + keys[0] + ") " + keys[1] + ")"
		} else {
			terms[i] = "(select " + m + " " + keys[0] + ")"
		}
	}
	pos := 0
	return c.unflatten(t, terms, &pos)
}

func (c *Ctx) resolveType(name string, env *Env) types.Type {
	switch name {
	case "wide", "mathint":
		return theWide
	case "any", "ref":
		return types.NewInterfaceType(nil, nil)
	case "error":
		return types.Universe.Lookup("error").Type()
	}
	if strings.HasPrefix(name, "*") {
		t := c.resolveType(name[1:], env)
		if t == nil {
			return nil
		}
		return types.NewPointer(t)
	}
	if strings.HasPrefix(name, "[]") {
		t := c.resolveType(name[2:], env)
		if t == nil {
			return nil
		}
		return types.NewSlice(t)
	}
	if o := types.Universe.Lookup(name); o != nil {
		if tn, ok := o.(*types.TypeName); ok {
			return tn.Type()
		}
	}
	var obj types.Object
	if i := strings.LastIndex(name, "."); i >= 0 {
		obj = c.lookupQualified(name[:i], name[i+1:], env)
	} else if p := c.P.typesPkg[env.pkgPath]; p != nil {
		obj = p.Scope().Lookup(name)
	}
	if tn, ok := obj.(*types.TypeName); ok {
		return tn.Type()
	}
	return nil
}

func (c *Ctx) evalCall(e *Expr, env *Env) *Val {
	boolT := types.Typ[types.Bool]
	arg := func(i int) *Val {
		if i >= len(e.Args) {
			c.specErr("%s: missing argument %d", e.Name, i)
			return nil
		}
		return c.evalExpr(e.Args[i], env)
	}
	switch e.Name {
	case "old":
		sub := *env
		sub.inOld = true
		return c.evalExpr(e.Args[0], &sub)
	case "athead":
		// athead(x): in a `loop N iteration` clause, the value the variable x had when the
		// iteration just finished began - also for a re-assigned parameter, whose old(x) is its
		// value on entry of the function
		if env.oldNames == nil || len(e.Args) != 1 || e.Args[0].Op != "id" {
			c.specErr("athead(<variable>) is for loop iteration clauses")
			return nil
		}
		name := e.Args[0].Name
		if v, ok := env.oldNames[name]; ok {
			return v
		}
		sub := *env
		sub.st = env.old
		if _, isParam := c.paramVals[name]; isParam {
			if v := c.currentOfSpilledParam(name, &sub); v != nil {
				return v
			}
		}
		sub.inOld = true
		if v := c.lookupLocalName(name, &sub); v != nil {
			return v
		}
		c.specErr("athead: %s is not a variable of the loop", name)
		return nil
	case "len", "cap":
		x := arg(0)
		if x == nil {
			return nil
		}
		it := types.Typ[types.Int]
		switch {
		case x.K == VSlice && e.Name == "len":
			return &Val{K: VScalar, T: it, S: x.Len}
		case x.K == VSlice:
			return &Val{K: VScalar, T: it, S: x.Cap}
		case x.T != nil && isString(x.T):
			return &Val{K: VScalar, T: it, S: sApp(c.strLenFn(), x.S)}
		}
		if x.T != nil {
			if at, ok := x.T.Underlying().(*types.Array); ok {
				return &Val{K: VScalar, T: it, S: c.idxConst(at.Len())}
			}
		}
		c.specErr("len of %s", e.Args[0])
		return nil
	case "fieldaddr":
		// fieldaddr(p, "f"): the address &p.f of a field of the struct p points to (the value
		// a call like p.f.Lock() receives as its receiver)
		x := arg(0)
		if x == nil || len(e.Args) != 2 || e.Args[1].Op != "str" || x.T == nil {
			c.specErr("fieldaddr(pointer, \"field\")")
			return nil
		}
		pt, ok := x.T.Underlying().(*types.Pointer)
		if !ok {
			c.specErr("fieldaddr: %s is not a pointer", e.Args[0])
			return nil
		}
		stT := pt.Elem()
		su, ok := stT.Underlying().(*types.Struct)
		if !ok {
			c.specErr("fieldaddr: not a pointer to a struct")
			return nil
		}
		for i := 0; i < su.NumFields(); i++ {
			if su.Field(i).Name() != e.Args[1].Name {
				continue
			}
			ft := su.Field(i).Type()
			rt := types.NewPointer(ft)
			if isStruct(ft) {
				return &Val{K: VScalar, T: rt, S: c.subAddr(stT, i, x.S)}
			}
			if _, ok := isScalarArray(ft); ok {
				return &Val{K: VScalar, T: rt, S: c.arrFieldAddr(stT, i, x.S)}
			}
			fn := quoteSym(fmt.Sprintf("fld|%s|%d", typeKey(stT), i))
			c.declareFun(fn, []string{"Int"}, "Int")
			return &Val{K: VScalar, T: rt, S: sApp(fn, x.S)}
		}
		c.specErr("fieldaddr: no field %s", e.Args[1].Name)
		return nil
	case "inloop":
		// inloop(N): the program point the clause is evaluated at (a return site, a call site)
		// is reached from inside an iteration of loop N - it lies in the loop body or was
		// left from it by return / break, as opposed to the loop's regular exit
		if len(e.Args) != 1 || e.Args[0].Op != "num" || c.fn == nil || c.curBlk == nil {
			c.specErr("inloop(<loop number>)")
			return nil
		}
		n, _ := strconv.Atoi(e.Args[0].Name)
		res := "false"
		found := false
		for h, ord := range c.loopOrd {
			if ord != n {
				continue
			}
			found = true
			body := loopBody(h)
			for _, sc := range h.Succs {
				if body[sc] && sc != h && (sc == c.curBlk || sc.Dominates(c.curBlk)) {
					res = "true"
				}
			}
		}
		if !found {
			c.specErr("inloop(%d): no such loop", n)
			return nil
		}
		return &Val{K: VScalar, T: types.Typ[types.Bool], S: res}
	case "bornin":
		// bornin(x, N): the backing array of slice x (or the object pointer x refers to) was
		// allocated in the current iteration of loop N, or x is nil
		if len(e.Args) != 2 || e.Args[1].Op != "num" {
			c.specErr("bornin(<slice or pointer>, <loop number>)")
			return nil
		}
		a := arg(0)
		if a == nil {
			return nil
		}
		n, _ := strconv.Atoi(e.Args[1].Name)
		found := false
		for _, ord := range c.loopOrd {
			if ord == n {
				found = true
			}
		}
		if !found {
			c.specErr("bornin(.., %d): no such loop", n)
			return nil
		}
		ref := a.S
		if a.K == VSlice {
			ref = a.Arr
		}
		fn := fmt.Sprintf("bornin!%d", n)
		c.declareFun(fn, []string{"Int"}, "Bool")
		return &Val{K: VScalar, T: types.Typ[types.Bool], S: sOr(sEq(ref, "0"), sApp(fn, ref))}
	case "samearray", "sliceoff":
		// samearray(a, b): the two slices share their backing array; sliceoff(a, b): how many
		// elements after b's first element a's first element lies (meaningful when they share
		// the array): a == b[sliceoff(a,b) : sliceoff(a,b)+len(a)]
		a, b := arg(0), arg(1)
		if a == nil || b == nil {
			return nil
		}
		if a.K != VSlice || b.K != VSlice {
			c.specErr("%s wants two slices", e.Name)
			return nil
		}
		if e.Name == "samearray" {
			return &Val{K: VScalar, T: types.Typ[types.Bool], S: sEq(a.Arr, b.Arr)}
		}
		return &Val{K: VScalar, T: types.Typ[types.Int], S: c.idxSub(a.Off, b.Off)}
	case "ite":
		cnd, a, b := arg(0), arg(1), arg(2)
		if cnd == nil || a == nil || b == nil {
			return nil
		}
		if a.Lit != nil && b.Lit != nil {
			a = c.widen(a)
		}
		a, b = c.coerce(a, b), c.coerce(b, a)
		if a.Wide != b.Wide {
			a, b = c.widen(a), c.widen(b)
		}
		return c.iteVal(cnd.S, a, b)
	case "wide":
		x := arg(0)
		if x == nil {
			return nil
		}
		return c.widen(x)
	case "errIs":
		x, y := arg(0), arg(1)
		if x == nil || y == nil {
			return nil
		}
		if y.K != VScalar || (y.T != nil && c.scalarSort(y.T) != "Int") || (y.T != nil && !types.IsInterface(y.T)) {
			y = c.makeIfaceQuiet(y)
		}
		c.declareFun("errIs", []string{"Int", "Int"}, "Bool")
		c.asserts = append(c.asserts, sImp(sAnd(sEq(x.S, y.S), sNot(sEq(x.S, "0"))), sApp("errIs", x.S, y.S)))
		c.asserts = append(c.asserts, sImp(sEq(x.S, "0"), sNot(sApp("errIs", x.S, y.S))))
		return &Val{K: VScalar, T: boolT, S: sApp("errIs", x.S, y.S)}
	case "errAs":
		x := arg(0)
		if x == nil || len(e.Args) < 2 {
			return nil
		}
		tn := qualName(e.Args[1])
		t := c.resolveType(tn, env)
		if t == nil {
			c.specErr("errAs: unknown type %s", tn)
			return nil
		}
		fn := quoteSym("errAs|" + typeKey(t))
		c.declareFun(fn, []string{"Int"}, "Bool")
		return &Val{K: VScalar, T: boolT, S: sApp(fn, x.S)}
	case "iface":
		x := arg(0)
		if x == nil {
			return nil
		}
		return c.makeIfaceQuiet(x)
	case "min", "max":
		a, b := arg(0), arg(1)
		if a == nil || b == nil {
			return nil
		}
		lt := c.specBin(token.LSS, a, b)
		a, b = c.coerce(a, b), c.coerce(b, a)
		if a.Wide != b.Wide {
			a, b = c.widen(a), c.widen(b)
		}
		if e.Name == "min" {
			return c.iteVal(lt.S, a, b)
		}
		return c.iteVal(lt.S, b, a)
	case "outerresult":
		// outerresult(i): inside the synthetic body of a range-over-func loop, the current
		// content of the cell that holds the i-th result of the enclosing function (the body
		// stores there what a `return` inside the loop hands back); these cells are captured
		// variables without a name
		if len(e.Args) != 1 || e.Args[0].Op != "num" || c.fn == nil {
			c.specErr("outerresult(<result number>)")
			return nil
		}
		want, _ := strconv.Atoi(e.Args[0].Name)
		k := 0
		for _, fv := range c.fn.FreeVars {
			if fv.Name() != "" {
				continue
			}
			if k == want {
				pv := c.vals[fv]
				pt, ok := fv.Type().Underlying().(*types.Pointer)
				if pv == nil || !ok {
					c.specErr("outerresult: cell not available")
					return nil
				}
				st := env.st
				if env.inOld {
					st = env.old
				}
				save := c.inSpec
				c.inSpec = true
				v := c.load(pv, pt.Elem(), st)
				c.inSpec = save
				return v
			}
			k++
		}
		var cells []string
		for _, fv := range c.fn.FreeVars {
			cells = append(cells, fmt.Sprintf("%q:%s", fv.Name(), fv.Type()))
		}
		c.specErr("outerresult(%d): the function has no such result cell (free variables: %s)", want, strings.Join(cells, ", "))
		return nil
	case "deref":
		// deref(p): current content of the variable p points to (captured variables of closures)
		x := arg(0)
		if x == nil || x.T == nil {
			return nil
		}
		pt, ok := x.T.Underlying().(*types.Pointer)
		if !ok {
			c.specErr("deref of non-pointer")
			return nil
		}
		st := env.st
		if env.inOld {
			st = env.old
		}
		save := c.inSpec
		c.inSpec = true
		v := c.load(x, pt.Elem(), st)
		c.inSpec = save
		return v
	case "as", "isType":
		// as(x, T): view the interface/pointer value x as *T (x holds a *T; interface values
		// holding a non-nil pointer are identified with that pointer)
		// isType(x, T): the dynamic type of interface value x is *T
		x := arg(0)
		if x == nil || len(e.Args) < 2 {
			return nil
		}
		tn := qualName(e.Args[1])
		t := c.resolveType(tn, env)
		if t == nil {
			c.specErr("%s: unknown type %s", e.Name, tn)
			return nil
		}
		pt := types.NewPointer(t)
		if e.Name == "as" {
			return &Val{K: VScalar, T: pt, S: x.S}
		}
		c.declareFun("dyntype", []string{"Int"}, "Int")
		return &Val{K: VScalar, T: boolT, S: sAnd(sNot(sEq(x.S, "0")), sEq(sApp("dyntype", x.S), c.typeTag(pt)))}
	case "hasDynType":
		// hasDynType(x, T): the interface value x holds a value whose dynamic type is exactly T
		// (T may be a pointer type written *T)
		x := arg(0)
		if x == nil || len(e.Args) < 2 {
			return nil
		}
		tn := qualName(e.Args[1])
		if e.Args[1].Op == "un" && e.Args[1].Name == "*" && len(e.Args[1].Args) == 1 {
			tn = "*" + qualName(e.Args[1].Args[0])
		}
		t := c.resolveType(tn, env)
		if t == nil {
			c.specErr("hasDynType: unknown type %s", tn)
			return nil
		}
		c.declareFun("dyntype", []string{"Int"}, "Int")
		return &Val{K: VScalar, T: boolT, S: sAnd(sNot(sEq(x.S, "0")), sEq(sApp("dyntype", x.S), c.typeTag(t)))}
	case "resultOf":
		// resultOf(x, "callee pattern"): the value x is (on this path) the result of a call
		// to a matching callee - provenance, decided by data flow, not by value equality
		x := arg(0)
		if x == nil || len(e.Args) < 2 || e.Args[1].Op != "str" {
			c.specErr("resultOf(value, \"callee pattern\")")
			return nil
		}
		return &Val{K: VScalar, T: boolT, S: c.provMatches(x, e.Args[1].Name)}
	case "boundTo":
		// boundTo(f, "function pattern"): the function value f was made (MakeClosure) from a
		// function whose short name matches: a method value x.M is "(T).M$bound", a function
		// literal "F$1". Decided from where the value was created, it survives being stored
		// in a slice or a struct and loaded back.
		x := arg(0)
		if x == nil || len(e.Args) < 2 || e.Args[1].Op != "str" {
			c.specErr("boundTo(value, \"function pattern\")")
			return nil
		}
		c.declareFun("closurefn", []string{"Int"}, "Int")
		var alts []string
		var names []string
		for n := range c.provIDs {
			names = append(names, n)
		}
		sort.Strings(names)
		for _, n := range names {
			if strings.HasPrefix(n, "closure:") && matchAny([]string{e.Args[1].Name}, strings.TrimPrefix(n, "closure:")) {
				alts = append(alts, sEq(sApp("closurefn", x.S), fmt.Sprint(c.provIDs[n])))
			}
		}
		if len(alts) == 0 {
			return &Val{K: VScalar, T: boolT, S: "false"}
		}
		return &Val{K: VScalar, T: boolT, S: sOr(alts...)}
	case "has":
		// has(m, k): key k is present in map m
		m, k := arg(0), arg(1)
		if m == nil || k == nil {
			return nil
		}
		mt, ok := m.T.Underlying().(*types.Map)
		if !ok {
			c.specErr("has() on non-map")
			return nil
		}
		st := env.st
		if env.inOld {
			st = env.old
		}
		return &Val{K: VScalar, T: boolT, S: sAnd(sNot(sEq(m.S, "0")), c.mapHas(st, mt, m.S, c.mapKeyTerm(mt, k)))}
	case "beval", "leval":
		// beval(x, lo, n) / leval(x, lo, n): the n elements x[lo..lo+n) of a slice, array or
		// string read as one big-endian / little-endian unsigned number (wide); lo, n literal.
		// Quantifier-free: a concatenation of n element reads.
		if len(e.Args) != 3 || e.Args[1].Op != "num" || e.Args[2].Op != "num" {
			c.specErr("%s(x, <literal lo>, <literal n>)", e.Name)
			return nil
		}
		lo, _ := strconv.Atoi(e.Args[1].Name)
		n, _ := strconv.Atoi(e.Args[2].Name)
		if c.mode == "int" || n <= 0 {
			c.specErr("%s: bv mode and n > 0 only", e.Name)
			return nil
		}
		parts := make([]string, n)
		total := 0
		for k := 0; k < n; k++ {
			ie := &Expr{Op: "idx", Args: []*Expr{e.Args[0], {Op: "num", Name: strconv.Itoa(lo + k)}}}
			ev := c.evalIndex(ie, env)
			if ev == nil {
				return nil
			}
			bits, _, ok := intInfo(ev.T)
			if !ok {
				c.specErr("%s: element is not an integer", e.Name)
				return nil
			}
			total += bits
			if e.Name == "beval" {
				parts[k] = ev.S
			} else {
				parts[n-1-k] = ev.S
			}
		}
		if total >= c.wideBits() {
			c.specErr("%s: %d bits do not fit into wide (%d bits, signed): raise opt wide", e.Name, total, c.wideBits())
			return nil
		}
		s := parts[0]
		if n > 1 {
			s = "(concat " + strings.Join(parts, " ") + ")"
		}
		return &Val{K: VScalar, T: theWide, Wide: true, S: fmt.Sprintf("((_ zero_extend %d) %s)", c.wideBits()-total, s)}
	case "bytesEq":
		// bytesEq(s, t): slices have equal length and contents
		a, b := arg(0), arg(1)
		if a == nil || b == nil {
			return nil
		}
		return &Val{K: VScalar, T: boolT, S: c.seqEq(a, b, env)}
	}
	// conversions to integer types: uint64(x) etc.
	if t := c.resolveType(e.Name, env); t != nil && len(e.Args) == 1 {
		x := arg(0)
		if x == nil {
			return nil
		}
		if _, _, ok := intInfo(t); ok {
			if x.Lit != nil {
				return c.coerceTo(x, t)
			}
			if c.mode == "int" {
				return &Val{K: VScalar, T: t, S: x.S, Wide: false}
			}
			if x.Wide {
				bits, _, _ := intInfo(t)
				return &Val{K: VScalar, T: t, S: fmt.Sprintf("((_ extract %d 0) %s)", bits-1, x.S)}
			}
			save := c.inSpec
			c.inSpec = true
			r := c.convert(x, t, env.st)
			c.inSpec = save
			return r
		}
		if isString(t) && x.K == VSlice {
			// string(b) of a byte slice: the same model as the conversion in code
			st := env.st
			if env.inOld {
				st = env.old
			}
			return c.stringOfBytes(x, t, st)
		}
		n := *x
		n.T = t
		return &n
	}
	if pf, ok := c.P.CS.Pures[e.Name]; ok {
		return c.callPure(pf, e, env)
	}
	if g, ok := c.P.CS.Ghosts[e.Name]; ok {
		var args []*Val
		for i := range e.Args {
			a := arg(i)
			if a == nil {
				return nil
			}
			args = append(args, a)
		}
		return c.ghostRead(g, args, env)
	}
	c.specErr("unknown spec function %s", e.Name)
	return nil
}

func (c *Ctx) makeIfaceQuiet(v *Val) *Val {
	save := c.curReach
	c.curReach = "true"
	r := c.makeIface(v, types.NewInterfaceType(nil, nil))
	c.curReach = save
	return r
}

// seqEq: equal length and pointwise equal contents of two byte sequences (slices or strings)
func (c *Ctx) seqEq(a, b *Val, env *Env) string {
	st := env.st
	if env.inOld {
		st = env.old
	}
	lenOf := func(v *Val) string {
		if v.K == VSlice {
			return v.Len
		}
		return sApp(c.strLenFn(), v.S)
	}
	at := func(v *Val, i string) string {
		if v.K == VSlice {
			et := v.T.Underlying().(*types.Slice).Elem()
			return c.mapReadQuiet(st, elemPrefix(et), []string{v.Arr, c.idxAdd(v.Off, i)}, et).S
		}
		return sApp(c.strByteFn(), v.S, i)
	}
	var rng string
	if c.mode == "int" {
		rng = sAnd("(<= 0 qi)", "(< qi "+lenOf(a)+")")
	} else {
		rng = "(bvult qi " + lenOf(a) + ")"
	}
	return sAnd(sEq(lenOf(a), lenOf(b)), "(forall ((qi "+c.idxSort()+")) "+sImp(rng, sEq(at(a, "qi"), at(b, "qi")))+")")
}

func (c *Ctx) ghostRead(g *GhostDecl, args []*Val, env *Env) *Val {
	rt := c.resolveType(g.Ret, env)
	if rt == nil {
		c.specErr("ghost %s: unknown type %s", g.Name, g.Ret)
		return nil
	}
	_, retWide := rt.(*wideType)
	mk := func(s string) *Val { return &Val{K: VScalar, T: rt, S: s, Wide: retWide} }
	var terms, sorts []string
	for i, a := range args {
		if a.Lit != nil {
			if i < len(g.Params) {
				if pt := c.resolveType(g.Params[i].Type, env); pt != nil {
					a = c.coerceTo(a, pt)
				}
			}
			if a.Lit != nil {
				a = &Val{K: VScalar, S: intLit(a.Lit)}
			}
		}
		c.flatten(a, &terms, &sorts)
	}
	switch g.Kind {
	case "pred":
		fn := quoteSym("G!" + g.Name)
		if len(terms) == 0 {
			c.declare(fn, c.scalarSort(rt))
			return mk(fn)
		}
		c.declareFun(fn, sorts, c.scalarSort(rt))
		return mk(sApp(fn, terms...))
	case "field", "var":
		st := env.st
		if env.inOld {
			st = env.old
		}
		name := "G|" + g.Name
		c.registerMap(name, c.ghostMapSort(g))
		key := "0"
		if len(terms) >= 1 {
			key = terms[0]
		}
		return mk("(select " + c.lookup(st, name) + " " + key + ")")
	}
	return nil
}

func (c *Ctx) callPure(pf *PureFunc, e *Expr, env *Env) *Val {
	rt := c.resolveType(pf.Ret, env)
	if rt == nil {
		c.specErr("pure %s: unknown result type %s", pf.Name, pf.Ret)
		return nil
	}
	if len(e.Args) != len(pf.Params) {
		c.specErr("pure %s: want %d args", pf.Name, len(pf.Params))
		return nil
	}
	var terms []string
	var ptypes []types.Type
	for i, p := range pf.Params {
		pt := c.resolveType(p.Type, env)
		if pt == nil {
			c.specErr("pure %s: unknown parameter type %s", pf.Name, p.Type)
			return nil
		}
		ptypes = append(ptypes, pt)
		a := c.evalExpr(e.Args[i], env)
		if a == nil {
			return nil
		}
		a = c.coerceTo(a, pt)
		c.flatten(a, &terms, nil)
	}
	fn := quoteSym("P!" + pf.Name)
	if !c.pureDefs[pf.Name] {
		c.pureDefs[pf.Name] = true
		var psorts []string
		for _, pt := range ptypes {
			c.typeSorts(pt, &psorts)
		}
		var rsorts []string
		c.typeSorts(rt, &rsorts)
		if len(rsorts) != 1 {
			c.specErr("pure %s: composite result", pf.Name)
			return nil
		}
		if pf.Body == nil {
			c.declareFun(fn, psorts, rsorts[0])
		} else {
			// define-fun with formal names
			sub := &Env{c: c, names: map[string]*Val{}, st: env.st, old: env.old, noLocals: true, pkgPath: env.pkgPath}
			var formals []string
			k := 0
			for i, p := range pf.Params {
				var leafs []string
				var ls []string
				c.typeSorts(ptypes[i], &ls)
				for j := range ls {
					n := quoteSym(fmt.Sprintf("f!%s!%d", p.Name, j))
					leafs = append(leafs, n)
					formals = append(formals, "("+n+" "+ls[j]+")")
					k++
				}
				pos := 0
				fv := c.unflatten(ptypes[i], leafs, &pos)
				if _, isW := ptypes[i].(*wideType); isW {
					fv.Wide = true
				}
				sub.names[p.Name] = fv
			}
			c.declared[fn] = true
			kw := "define-fun"
			if pf.Rec {
				kw = "define-fun-rec"
			}
			// reserve position: body may reference other pure functions that must be defined first
			body := c.evalExpr(pf.Body, sub)
			if body == nil {
				return nil
			}
			body = c.coerceTo(body, rt)
			if _, isW := rt.(*wideType); body.Wide && !isW && c.mode != "int" {
				// literal branches of an ite are widened: bring the value back to the declared type
				if bits, _, ok := intInfo(rt); ok {
					body = &Val{K: VScalar, T: rt, S: fmt.Sprintf("((_ extract %d 0) %s)", bits-1, body.S)}
				}
			}
			c.decls = append(c.decls, fmt.Sprintf("(%s %s (%s) %s %s)", kw, fn, strings.Join(formals, " "), rsorts[0], body.S))
		}
	}
	res := &Val{K: VScalar, T: rt, S: sApp(fn, terms...)}
	if _, isW := rt.(*wideType); isW {
		res.Wide = true
	}
	return res
}

// strSubSpec: s[lo:hi] of a string in a contract expression. The facts about the substring
// (length, bytes, identity of the whole-string slice) are stated under the guard that the
// range is valid, so an out-of-range slice in a contract constrains nothing. Inside a
// quantifier (bound variable in the term) no facts are added.
func (c *Ctx) strSubSpec(base *Val, lo, hi string) *Val {
	c.declareFun("ssub", []string{"Int", c.idxSort(), c.idxSort()}, "Int")
	t := sApp("ssub", base.S, lo, hi)
	v := &Val{K: VScalar, T: base.T, S: t}
	if strings.Contains(t, "q!") {
		return v
	}
	key := "ssubspec:" + t
	if c.specFacts == nil {
		c.specFacts = map[string]bool{}
	}
	if c.specFacts[key] {
		return v
	}
	c.specFacts[key] = true
	l := c.strLenFn()
	bf := c.strByteFn()
	is := c.idxSort()
	var valid, rng string
	if c.mode == "int" {
		valid = sAnd("(<= 0 "+lo+")", "(<= "+lo+" "+hi+")", "(<= "+hi+" "+sApp(l, base.S)+")")
		rng = sAnd("(<= 0 i)", "(< i "+c.idxSub(hi, lo)+")")
	} else {
		valid = sAnd("(bvule "+lo+" "+hi+")", "(bvule "+hi+" "+sApp(l, base.S)+")")
		rng = "(bvult i " + c.idxSub(hi, lo) + ")"
	}
	// a constant names the term, so that the trigger below is a legal pattern even when the
	// operands contain if-then-else
	nm := c.fresh1("ssubspec", "Int")
	c.asserts = append(c.asserts, sEq(nm, t))
	c.asserts = append(c.asserts, sImp(valid, sAnd(
		sEq(sApp(l, nm), c.idxSub(hi, lo)),
		c.strWF(nm),
		sImp(sAnd(sEq(lo, c.idxConst(0)), sEq(hi, sApp(l, base.S))), sEq(nm, base.S)),
		fmt.Sprintf("(forall ((i %s)) (! (=> %s (= (%s %s i) (%s %s %s))) :pattern ((%s %s i))))", is, rng, bf, nm, bf, base.S, c.idxAdd(lo, "i"), bf, nm))))
	return v
}

// reassignedParam: a parameter that the function assigns again (buf = buf[:n]) without taking
// its address has no variable cell; go/ssa simply uses the new value from there on. The plain
// name in a contract means the value in scope at the current point: the closest assignment
// that dominates it (old(name) still means the value on entry).
func (c *Ctx) reassignedParam(name string) *Val {
	if c.curBlk == nil {
		return nil
	}
	// the parameter's own variable object (a field or another variable of the same name must
	// not be mistaken for it)
	var pobj types.Object
	for _, p := range c.fn.Params {
		if p.Name() == name {
			pobj = p.Object()
		}
	}
	if pobj == nil {
		return nil
	}
	var best ssa.Value
	for _, v := range c.dbg[name] {
		in, ok := v.(ssa.Instruction)
		if !ok || in.Block() == nil || c.dbgObj[v] != pobj {
			continue
		}
		if _, have := c.vals[v]; !have {
			continue
		}
		if in.Block().Parent() != c.curBlk.Parent() {
			continue
		}
		if !(in.Block() == c.curBlk || in.Block().Dominates(c.curBlk)) {
			continue
		}
		if best == nil || best.(ssa.Instruction).Block().Dominates(in.Block()) {
			best = v
		}
	}
	if best == nil {
		return nil
	}
	return c.vals[best]
}

func instrIndex(in ssa.Instruction) int {
	for i, x := range in.Block().Instrs {
		if x == in {
			return i
		}
	}
	return -1
}

// a0DebugNamed: a plain SSA value bound to the same name is defined in a block that the
// alloc's block dominates (a nested redeclaration closer to the current point may exist).
func a0DebugNamed(c *Ctx, name string, al *ssa.Alloc) bool {
	for _, v := range c.dbg[name] {
		in, ok := v.(ssa.Instruction)
		if !ok || in.Block() == nil {
			continue
		}
		if in.Block() != al.Block() && al.Block().Dominates(in.Block()) && in.Block().Dominates(c.curBlk) {
			return true
		}
	}
	return false
}
