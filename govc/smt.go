package main

// SMT-LIB term helpers (terms are strings) and solver racing.

import (
	"bytes"
	"context"
	"fmt"
	"math/big"
	"os"
	"os/exec"
	"path/filepath"
	"strings"
	"sync"
	"time"
)

func sAnd(xs ...string) string {
	var out []string
	for _, x := range xs {
		if x == "true" || x == "" {
			continue
		}
		if x == "false" {
			return "false"
		}
		out = append(out, x)
	}
	switch len(out) {
	case 0:
		return "true"
	case 1:
		return out[0]
	}
	return "(and " + strings.Join(out, " ") + ")"
}

func sOr(xs ...string) string {
	var out []string
	for _, x := range xs {
		if x == "false" || x == "" {
			continue
		}
		if x == "true" {
			return "true"
		}
		out = append(out, x)
	}
	switch len(out) {
	case 0:
		return "false"
	case 1:
		return out[0]
	}
	return "(or " + strings.Join(out, " ") + ")"
}

func sNot(x string) string {
	switch x {
	case "true":
		return "false"
	case "false":
		return "true"
	}
	if strings.HasPrefix(x, "(not ") && balanced(x[5:len(x)-1]) {
		return x[5 : len(x)-1]
	}
	return "(not " + x + ")"
}

func balanced(s string) bool {
	d := 0
	for _, c := range s {
		if c == '(' {
			d++
		} else if c == ')' {
			d--
			if d < 0 {
				return false
			}
		}
	}
	return d == 0
}

func sImp(a, b string) string {
	if a == "true" {
		return b
	}
	if a == "false" || b == "true" {
		return "true"
	}
	if b == "false" {
		return sNot(a)
	}
	return "(=> " + a + " " + b + ")"
}

func sIte(c, a, b string) string {
	if c == "true" {
		return a
	}
	if c == "false" {
		return b
	}
	if a == b {
		return a
	}
	if a == "true" && b == "false" {
		return c
	}
	if a == "false" && b == "true" {
		return sNot(c)
	}
	return "(ite " + c + " " + a + " " + b + ")"
}

func sEq(a, b string) string {
	if a == b {
		return "true"
	}
	return "(= " + a + " " + b + ")"
}

func sApp(f string, args ...string) string {
	if len(args) == 0 {
		return f
	}
	return "(" + f + " " + strings.Join(args, " ") + ")"
}

func bvLit(v *big.Int, bits int) string {
	m := new(big.Int).Lsh(big.NewInt(1), uint(bits))
	x := new(big.Int).Mod(v, m)
	if bits%4 == 0 {
		return fmt.Sprintf("#x%0*s", bits/4, x.Text(16))
	}
	return fmt.Sprintf("(_ bv%s %d)", x.String(), bits)
}

func intLit(v *big.Int) string {
	if v.Sign() < 0 {
		return "(- " + new(big.Int).Neg(v).String() + ")"
	}
	return v.String()
}

func quoteSym(s string) string {
	s = strings.NewReplacer("|", "!", "\\", "!").Replace(s)
	for _, c := range s {
		if !(c >= 'a' && c <= 'z' || c >= 'A' && c <= 'Z' || c >= '0' && c <= '9' || strings.ContainsRune("_.!$@~%^&*+-<>=/?", c)) {
			return "|" + s + "|"
		}
	}
	if s == "" || (s[0] >= '0' && s[0] <= '9') {
		return "|" + s + "|"
	}
	return s
}

// ---------------------------------------------------------------- solvers

type SolverRes struct {
	Result string // unsat | sat | unknown | timeout | error
	Solver string
	Ms     int64
	Output string
	All    map[string]string
}

type solverSpec struct {
	name string
	args func(file string, timeoutS int) []string
	prep func(q string) string
}

var solvers = []solverSpec{
	{"z3-5.1.0", func(f string, t int) []string { return []string{"z3-new", fmt.Sprintf("-T:%d", t), f} }, nil},
	{"z3-4.8.12", func(f string, t int) []string { return []string{"z3", fmt.Sprintf("-T:%d", t), f} }, nil},
	{"cvc5-1.0.3", func(f string, t int) []string {
		return []string{"cvc5", "--incremental", fmt.Sprintf("--tlimit=%d", t*1000), f}
	}, func(q string) string { return "(set-option :produce-models true)\n(set-logic ALL)\n" + q }},
}

var scratchDir string
var scratchOnce sync.Once

func scratch() string {
	scratchOnce.Do(func() {
		base := os.Getenv("VERIF_SCRATCH")
		if base == "" {
			base = fmt.Sprintf("/var/tmp/verif.%d", os.Getpid())
		}
		os.MkdirAll(base, 0o755)
		scratchDir = base
	})
	return scratchDir
}

var fileSeq int
var fileMu sync.Mutex

func runOne(sp solverSpec, query string, timeoutS int, ctx context.Context) (string, string, int64) {
	q := query
	if sp.prep != nil {
		q = sp.prep(q)
	}
	fileMu.Lock()
	fileSeq++
	fn := filepath.Join(scratch(), fmt.Sprintf("q%d_%s.smt2", fileSeq, sp.name))
	fileMu.Unlock()
	os.WriteFile(fn, []byte(q), 0o644)
	defer os.Remove(fn)
	a := sp.args(fn, timeoutS)
	cctx, cancel := context.WithTimeout(ctx, time.Duration(timeoutS+2)*time.Second)
	defer cancel()
	cmd := exec.CommandContext(cctx, a[0], a[1:]...)
	var out bytes.Buffer
	cmd.Stdout = &out
	cmd.Stderr = &out
	t0 := time.Now()
	cmd.Run()
	ms := time.Since(t0).Milliseconds()
	s := out.String()
	first := strings.TrimSpace(strings.SplitN(s, "\n", 2)[0])
	switch first {
	case "unsat", "sat", "unknown":
		return first, s, ms
	case "timeout":
		return "timeout", s, ms
	}
	if cctx.Err() != nil {
		return "timeout", s, ms
	}
	if strings.Contains(s, "interrupted") || strings.Contains(s, "timeout") {
		return "timeout", s, ms
	}
	return "error", s, ms
}

// solve races the solvers; first definitive (sat/unsat) answer wins. Round 1 races
// z3 5.1.0 and cvc5; z3 4.8.12 is consulted when round 1 is undecided (or always when
// all==true, where every solver must answer and disagreement is reported).
func solve(query string, timeoutS int, all bool) SolverRes {
	if all {
		return raceSolvers(solvers, query, timeoutS, true)
	}
	r := raceSolvers([]solverSpec{solvers[0], solvers[2]}, query, timeoutS, false)
	if r.Result == "unsat" || r.Result == "sat" {
		return r
	}
	r2 := raceSolvers([]solverSpec{solvers[1]}, query, timeoutS, false)
	for k, v := range r.All {
		r2.All[k] = v
	}
	if r2.Result == "unsat" || r2.Result == "sat" {
		return r2
	}
	if r2.Output == "" {
		r2.Output = r.Output
	}
	to := true
	for _, v := range r2.All {
		if v != "timeout" {
			to = false
		}
	}
	if to {
		r2.Result = "timeout"
	}
	return r2
}

func raceSolvers(specs []solverSpec, query string, timeoutS int, all bool) SolverRes {
	ctx, cancel := context.WithCancel(context.Background())
	defer cancel()
	type r struct {
		name, res, out string
		ms             int64
	}
	ch := make(chan r, len(specs))
	for _, sp := range specs {
		sp := sp
		go func() {
			res, out, ms := runOne(sp, query, timeoutS, ctx)
			ch <- r{sp.name, res, out, ms}
		}()
	}
	final := SolverRes{Result: "unknown", All: map[string]string{}}
	got := 0
	for got < len(specs) {
		x := <-ch
		got++
		final.All[x.name] = x.res
		if x.res == "unsat" || x.res == "sat" {
			if final.Result != "unsat" && final.Result != "sat" {
				final.Result, final.Solver, final.Ms, final.Output = x.res, x.name, x.ms, x.out
			} else if final.Result != x.res && all {
				final.Result = "disagree"
			}
			if !all {
				cancel()
				return final
			}
		} else if final.Result == "unknown" && final.Output == "" {
			final.Output = x.out
			final.Ms = x.ms
		}
	}
	if final.Result == "unknown" {
		to, er := true, len(final.All) > 0
		for _, v := range final.All {
			if v != "timeout" {
				to = false
			}
			if v != "error" {
				er = false
			}
		}
		if to {
			final.Result = "timeout"
		}
		if er {
			// every back end rejected the query: a defect of the generator, not of the code
			final.Result = "error"
		}
	}
	return final
}
