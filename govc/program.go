package main

import (
	"fmt"
	"go/types"
	"os"
	"path/filepath"
	"sort"
	"strings"

	"golang.org/x/tools/go/packages"
	"golang.org/x/tools/go/ssa"
	"golang.org/x/tools/go/ssa/ssautil"
)

type Program struct {
	Repo         string
	Verif        string
	Pkgs         []*packages.Package
	Prog         *ssa.Program
	SSAPkgs      map[string]*ssa.Package
	CS           *ContractSet
	typesPkg     map[string]*types.Package
	allTypesPkgs []*types.Package
	typeByKey    map[string]types.Type
	funcsByKey   map[string]*ssa.Function
	instances    map[*ssa.Function][]*ssa.Function // generic function -> its instantiations
	purePats     []string
	contractFiles map[string]string // pkg path -> file used
	loadErrs     []string
}

const modulePath = "github.com/nspcc-dev/neofs-node"

func loadProgram(repo, verif string, patterns []string) (*Program, error) {
	p := &Program{Repo: repo, Verif: verif, SSAPkgs: map[string]*ssa.Package{}, CS: newContractSet(), typesPkg: map[string]*types.Package{}, typeByKey: map[string]types.Type{}, funcsByKey: map[string]*ssa.Function{}, contractFiles: map[string]string{}}
	cfg := &packages.Config{Mode: packages.LoadSyntax | packages.NeedModule, Dir: repo, BuildFlags: []string{"-tags=verif"}, Env: append(os.Environ(), "GOFLAGS=-mod=mod", "GOPROXY=off", "GOTOOLCHAIN=local", "GOSUMDB=off")}
	pkgs, err := packages.Load(cfg, patterns...)
	if err != nil {
		return nil, err
	}
	for _, pk := range pkgs {
		for _, e := range pk.Errors {
			p.loadErrs = append(p.loadErrs, pk.PkgPath+": "+e.Error())
		}
	}
	if len(p.loadErrs) > 0 {
		return p, fmt.Errorf("package load errors:\n%s", strings.Join(p.loadErrs, "\n"))
	}
	p.Pkgs = pkgs
	prog, spkgs := ssautil.Packages(pkgs, ssa.InstantiateGenerics|ssa.GlobalDebug)
	p.Prog = prog
	for i, sp := range spkgs {
		if sp == nil {
			continue
		}
		sp.Build()
		p.SSAPkgs[pkgs[i].PkgPath] = sp
	}
	seen := map[*types.Package]bool{}
	var visit func(tp *types.Package)
	visit = func(tp *types.Package) {
		if seen[tp] {
			return
		}
		seen[tp] = true
		p.allTypesPkgs = append(p.allTypesPkgs, tp)
		p.typesPkg[tp.Path()] = tp
		for _, imp := range tp.Imports() {
			visit(imp)
		}
	}
	for _, pk := range pkgs {
		visit(pk.Types)
	}
	// index functions (including methods and anonymous functions)
	for f := range ssautil.AllFunctions(prog) {
		if f.Pkg == nil && f.Object() == nil && f.Parent() == nil {
			continue
		}
		if o := f.Origin(); o != nil && o != f && len(f.Blocks) > 0 {
			if p.instances == nil {
				p.instances = map[*ssa.Function][]*ssa.Function{}
			}
			p.instances[o] = append(p.instances[o], f)
		}
		key, _, _ := fnIDs(f)
		if key != "" {
			if _, dup := p.funcsByKey[key]; !dup || f.Synthetic == "" {
				p.funcsByKey[key] = f
			}
		}
	}
	// contract files
	for _, pk := range pkgs {
		if len(pk.GoFiles) == 0 {
			continue
		}
		dir := filepath.Dir(pk.GoFiles[0])
		file := filepath.Join(dir, "verif_contracts.go")
		if _, err := os.Stat(file); err != nil {
			rel, _ := filepath.Rel(repo, dir)
			file = filepath.Join(verif, "contracts", "mirror", rel, "verif_contracts.go")
			if _, err := os.Stat(file); err != nil {
				continue
			}
		}
		if err := p.CS.parseFile(file, pk.PkgPath); err != nil {
			return p, err
		}
		p.contractFiles[pk.PkgPath] = file
	}
	deps, _ := filepath.Glob(filepath.Join(verif, "contracts", "deps", "*.govc"))
	sort.Strings(deps)
	for _, d := range deps {
		if err := p.CS.parseFile(d, ""); err != nil {
			return p, err
		}
	}
	if b, err := os.ReadFile(filepath.Join(verif, "contracts", "deps", "pure.list")); err == nil {
		for _, l := range strings.Split(string(b), "\n") {
			l = strings.TrimSpace(l)
			if l != "" && !strings.HasPrefix(l, "#") {
				p.purePats = append(p.purePats, l)
			}
		}
	}
	return p, nil
}

func globMatch(pat, s string) bool {
	// '*' matches any run of characters
	parts := strings.Split(pat, "*")
	if len(parts) == 1 {
		return pat == s
	}
	if !strings.HasPrefix(s, parts[0]) {
		return false
	}
	s = s[len(parts[0]):]
	for i := 1; i < len(parts)-1; i++ {
		j := strings.Index(s, parts[i])
		if j < 0 {
			return false
		}
		s = s[j+len(parts[i]):]
	}
	return strings.HasSuffix(s, parts[len(parts)-1])
}

func (p *Program) isPureName(short string) bool {
	for _, pat := range p.purePats {
		if globMatch(pat, short) {
			return true
		}
	}
	return false
}

// fieldTypeKey: the type key of field #idx of struct type key
func (p *Program) fieldTypeKey(structKey, idxStr string) string {
	t := p.typeByKey[structKey]
	if t == nil {
		return ""
	}
	st, ok := t.Underlying().(*types.Struct)
	if !ok {
		return ""
	}
	var idx int
	fmt.Sscan(strings.SplitN(idxStr, ".", 2)[0], &idx)
	if idx >= st.NumFields() {
		return ""
	}
	return typeKey(st.Field(idx).Type())
}

func (p *Program) newCtx(fn *ssa.Function, con *Contract) *Ctx {
	c := &Ctx{P: p, fn: fn, con: con, mode: con.Mode,
		declared: map[string]bool{}, vals: map[ssa.Value]*Val{}, closures: map[ssa.Value]*closureInfo{},
		strLits: map[string]string{}, heapSorts: map[string]string{}, dropped: map[string]int{},
		usedDeps: map[string]bool{}, usedAx: map[string]bool{}, dbg: map[string][]ssa.Value{},
		callSeq: map[string]int{}, oblSeq: map[string]int{}, pureDefs: map[string]bool{},
		globals: map[string]*Val{}, typeTags: map[string]string{}, uncontracted: map[string]int{}, inlined: map[string]int{}, definesUsed: map[string]bool{}, stableFV: map[string]bool{}, chanLinksUsed: map[string]bool{},
		props: con.Props}
	return c
}

// query assembles the SMT-LIB text for one obligation
func (c *Ctx) prelude() string { return c.preludeUpTo(-1) }

// preludeUpTo: declarations, axioms and the first n assumed facts (all when n < 0)
func (c *Ctx) preludeUpTo(n int) string {
	var sb strings.Builder
	for _, d := range c.decls {
		sb.WriteString(d)
		sb.WriteByte('\n')
	}
	for _, a := range c.axioms {
		sb.WriteString("(assert " + a + ")\n")
	}
	seen := map[string]bool{}
	for i, a := range c.asserts {
		if n >= 0 && i >= n && c.pathFact[i] {
			continue
		}
		if a == "true" || seen[a] {
			continue
		}
		seen[a] = true
		sb.WriteString("(assert " + a + ")\n")
	}
	return sb.String()
}

func (c *Ctx) modelTerms() []string {
	var out []string
	for _, p := range c.fn.Params {
		if v := c.vals[p]; v != nil {
			var ts []string
			c.flatten(v, &ts, nil)
			out = append(out, ts...)
		}
	}
	return out
}
