package main

// Parser for //@ contract blocks (DESIGN.md Appendix B).

import (
	"bufio"
	"fmt"
	"os"
	"regexp"
	"strconv"
	"strings"
)

type Clause struct {
	Label string
	E     *Expr
	Src   string
	File  string
	Line  int
	Props []string // properties of the block segment the clause was written in
}

type Param struct{ Name, Type string }

type Contract struct {
	Kind     string // "func" or "dep"
	Name     string // as written: (*T).M, F, F$1, pkg.F, (pkg.T).M
	Pkg      string // package path the file belongs to ("" for deps files)
	Mode     string // "bv" (default) or "int"
	Sweep    bool   // generate safety obligations (bounds, nil, div, overflow)
	SweepKinds []string // `sweep k1, k2`: only these kinds (slice.bounds, index.inbounds, ...); empty = all
	Pure     bool   // declared side-effect free
	Requires []*Clause
	Captured []*Clause // closures: facts about by-value captured variables; assumed on entry, demanded where the closure is made
	Ensures  []*Clause
	Defines  []*Clause // definitional ghost links: assumed at call sites, not checked in the body
	Valid    []*Clause // validity of the receiver/inputs (object invariant): assumed on entry, not demanded from callers, reported as an assumption
	LoopInv  map[int][]*Clause
	LoopDec  map[int]*Clause
	LoopMod  map[int][]string
	LoopIter map[int][]*Clause // obligations at the end of every iteration (each back edge)
	Assigns  []string // heap maps (Type.field / ghost field names) that may change; nil+!AssignsSet = unknown(everything)
	AssignsSet bool
	Props    []string
	Canary   bool
	Inline   []string // closures to inline / options
	Opts     map[string]string
	File     string
	Line     int
	Names    []string // explicit result names override
	segProps []string // property tags of the block segment being parsed
}

type PureFunc struct {
	Name   string
	Params []Param
	Ret    string
	Body   *Expr // nil = uninterpreted
	Rec    bool
	File   string
	Line   int
}

type GhostDecl struct {
	Kind   string // pred | field | var
	Name   string
	Params []Param
	Ret    string
}

type Axiom struct {
	Name  string
	E     *Expr
	Src   string
	Lemma bool
	Props []string
	Mode  string
	File  string
	Line  int
}

type CallRule struct {
	Name     string
	Callers  []string // patterns
	Callees  []string // patterns
	Except   []string
	Requires []*Clause
	Ensures  []*Clause // scoped assumed postconditions of the callees (definitional ghost links)
	Assigns  []string  // ghost fields the matched calls change
	Pure     bool      // the matched calls are assumed not to change the modelled (non-ghost) heap
	Optional bool      // the rule may match no call site (otherwise that is reported as vacuous)
	Immutable []string // T.field patterns assumed constant during an invocation of a matched caller
	Props    []string
	File     string
	Line     int
}

type FrameRule struct {
	Pkg     string
	Effect  string
	OnlyIn  []string
	Props   []string
	File    string
	Line    int
}

type ContractSet struct {
	Funcs   map[string]*Contract // key: pkgpath + "::" + name  (for deps: name only)
	Deps    map[string]*Contract
	Pures   map[string]*PureFunc
	Ghosts  map[string]*GhostDecl
	Axioms  []*Axiom
	Rules   []*CallRule
	Frames  []*FrameRule
	ChanLinks map[string]string // "T.field" -> ghost field: non-blocking receive succeeds iff ghost set
	Files   []string
}

func newContractSet() *ContractSet {
	cs := &ContractSet{Funcs: map[string]*Contract{}, Deps: map[string]*Contract{}, Pures: map[string]*PureFunc{}, Ghosts: map[string]*GhostDecl{}, ChanLinks: map[string]string{}}
	// built-in ghost field: a non-blocking select on ctx.Done() took the cancellation branch
	cs.Ghosts["ctxCancelSeen"] = &GhostDecl{Kind: "field", Name: "ctxCancelSeen", Params: []Param{{"x", "int"}}, Ret: "bool"}
	cs.Ghosts["ctxPolledLive"] = &GhostDecl{Kind: "field", Name: "ctxPolledLive", Params: []Param{{"x", "int"}}, Ret: "bool"}
	return cs
}

var reLabel = regexp.MustCompile(`^\[([A-Za-z0-9_.\-]+)\]\s*`)

func parseParams(s string) ([]Param, error) {
	s = strings.TrimSpace(s)
	if s == "" {
		return nil, nil
	}
	var out []Param
	for _, part := range strings.Split(s, ",") {
		f := strings.Fields(part)
		if len(f) != 2 {
			return nil, fmt.Errorf("bad parameter %q", part)
		}
		out = append(out, Param{f[0], f[1]})
	}
	return out, nil
}

// parseContractFile reads //@ lines from a file. pkg is the package path the
// file lives in ("" for dependency contract files).
func (cs *ContractSet) parseFile(path, pkg string) error {
	f, err := os.Open(path)
	if err != nil {
		return err
	}
	defer f.Close()
	cs.Files = append(cs.Files, path)
	sc := bufio.NewScanner(f)
	sc.Buffer(make([]byte, 1<<20), 1<<20)
	var cur *Contract
	var curRule *CallRule
	var lastClause *Clause
	var fileProps []string
	var lastFrame *FrameRule
	lineNo := 0
	fail := func(format string, a ...any) error {
		return fmt.Errorf("%s:%d: %s", path, lineNo, fmt.Sprintf(format, a...))
	}
	mkClause := func(rest string) (*Clause, error) {
		c := &Clause{File: path, Line: lineNo}
		if cur != nil {
			c.Props = append([]string{}, cur.segProps...)
		}
		if m := reLabel.FindStringSubmatch(rest); m != nil {
			c.Label = m[1]
			rest = rest[len(m[0]):]
		}
		c.Src = rest
		return c, nil
	}
	var pending []*Clause // clauses whose Src still to be parsed (after continuation lines)
	flush := func() error {
		for _, c := range pending {
			e, err := parseExpr(c.Src)
			if err != nil {
				return fmt.Errorf("%s:%d: %v", c.File, c.Line, err)
			}
			c.E = e
		}
		pending = nil
		return nil
	}
	for sc.Scan() {
		lineNo++
		line := strings.TrimSpace(sc.Text())
		if !strings.HasPrefix(line, "//@") {
			continue
		}
		body := strings.TrimSpace(line[3:])
		if i := strings.Index(body, " //"); i >= 0 { // trailing comment
			body = strings.TrimSpace(body[:i])
		}
		if body == "" {
			continue
		}
		if strings.HasPrefix(body, "|") { // continuation
			if lastClause == nil {
				return fail("continuation without clause")
			}
			lastClause.Src += " " + strings.TrimSpace(body[1:])
			continue
		}
		kw, rest, _ := strings.Cut(body, " ")
		rest = strings.TrimSpace(rest)
		switch kw {
		case "fileprops":
			fileProps = strings.Fields(strings.ReplaceAll(rest, ",", " "))
		case "func", "dep", "iface":
			cur = &Contract{Kind: kw, Name: rest, Pkg: pkg, Mode: "bv", LoopInv: map[int][]*Clause{}, LoopDec: map[int]*Clause{}, LoopMod: map[int][]string{}, Opts: map[string]string{}, File: path, Line: lineNo}
			cur.Props = append(cur.Props, fileProps...)
			cur.segProps = append([]string{}, fileProps...)
			curRule = nil
			if kw == "func" || kw == "iface" {
				if pkg == "" {
					return fail("func block in a deps file")
				}
				key := pkg + "::" + rest
				if old, dup := cs.Funcs[key]; dup {
					// a second block for the same function (another property's clauses):
					// the clauses and property tags accumulate in one contract
					cur = old
					cur.Props = append(cur.Props, fileProps...)
					cur.segProps = append([]string{}, fileProps...)
				} else {
					cs.Funcs[key] = cur
				}
			} else {
				if _, dup := cs.Deps[rest]; dup {
					return fail("duplicate dep contract for %s", rest)
				}
				cs.Deps[rest] = cur
			}
		case "pure":
			// pure func name(params) type [= expr]
			rest = strings.TrimPrefix(rest, "func ")
			rec := false
			if strings.HasPrefix(rest, "rec ") {
				rec = true
				rest = rest[4:]
			}
			i := strings.Index(rest, "(")
			j := strings.Index(rest, ")")
			if i < 0 || j < i {
				return fail("bad pure func")
			}
			pf := &PureFunc{Name: strings.TrimSpace(rest[:i]), Rec: rec, File: path, Line: lineNo}
			ps, err := parseParams(rest[i+1 : j])
			if err != nil {
				return fail("%v", err)
			}
			pf.Params = ps
			tail := strings.TrimSpace(rest[j+1:])
			if k := strings.Index(tail, "="); k >= 0 && !strings.HasPrefix(tail[k:], "==") {
				pf.Ret = strings.TrimSpace(tail[:k])
				c := &Clause{Src: strings.TrimSpace(tail[k+1:]), File: path, Line: lineNo}
				lastClause = c
				pending = append(pending, c)
				pfc := pf
				defer func() { pfc.Body = c.E }()
			} else {
				pf.Ret = tail
			}
			if _, dup := cs.Pures[pf.Name]; dup {
				return fail("duplicate pure func %s", pf.Name)
			}
			cs.Pures[pf.Name] = pf
			cur, curRule = nil, nil
		case "ghost":
			// ghost pred name(params) bool | ghost field name(p T) U | ghost var name T
			k2, r2, _ := strings.Cut(rest, " ")
			g := &GhostDecl{Kind: k2}
			if k2 == "var" {
				f := strings.Fields(r2)
				if len(f) != 2 {
					return fail("bad ghost var")
				}
				g.Name, g.Ret = f[0], f[1]
			} else {
				i := strings.Index(r2, "(")
				j := strings.Index(r2, ")")
				if i < 0 || j < i {
					return fail("bad ghost decl")
				}
				g.Name = strings.TrimSpace(r2[:i])
				ps, err := parseParams(r2[i+1 : j])
				if err != nil {
					return fail("%v", err)
				}
				g.Params = ps
				g.Ret = strings.TrimSpace(r2[j+1:])
			}
			if old, dup := cs.Ghosts[g.Name]; dup && (old.Kind != g.Kind || old.Ret != g.Ret || len(old.Params) != len(g.Params)) {
				return fail("conflicting ghost %s", g.Name)
			}
			cs.Ghosts[g.Name] = g
			cur, curRule = nil, nil
		case "axiom", "lemma":
			name, ex, ok := strings.Cut(rest, ":")
			if !ok {
				return fail("axiom needs name: expr")
			}
			ax := &Axiom{Name: strings.TrimSpace(name), Lemma: kw == "lemma", Mode: "int", File: path, Line: lineNo}
			ax.Props = append(ax.Props, fileProps...)
			c := &Clause{Src: strings.TrimSpace(ex), File: path, Line: lineNo}
			lastClause = c
			pending = append(pending, c)
			axc := ax
			defer func() { axc.E = c.E; axc.Src = c.Src }()
			cs.Axioms = append(cs.Axioms, ax)
			cur, curRule, lastFrame = nil, nil, nil
		case "callrule":
			// callrule name in caller-patterns
			name, callers, ok := strings.Cut(rest, " in ")
			if !ok {
				return fail("callrule needs 'in'")
			}
			curRule = &CallRule{Name: strings.TrimSpace(name), Callers: splitList(callers), File: path, Line: lineNo}
			curRule.Props = append(curRule.Props, fileProps...)
			cs.Rules = append(cs.Rules, curRule)
			cur = nil
		case "callee":
			if curRule == nil {
				return fail("callee outside callrule")
			}
			curRule.Callees = append(curRule.Callees, splitList(strings.TrimPrefix(rest, "in "))...)
		case "except":
			if curRule == nil {
				return fail("except outside callrule")
			}
			curRule.Except = append(curRule.Except, splitList(rest)...)
		case "chanlink":
			f := strings.Fields(rest)
			if len(f) != 2 {
				return fail("chanlink T.field ghostfield")
			}
			cs.ChanLinks[f[0]] = f[1]
		case "frame":
			// frame effect only in f1, f2
			eff, only, ok := strings.Cut(rest, " only in ")
			if !ok {
				return fail("frame needs 'only in'")
			}
			fr := &FrameRule{Pkg: pkg, Effect: strings.TrimSpace(eff), OnlyIn: splitList(only), File: path, Line: lineNo}
			fr.Props = append(fr.Props, fileProps...)
			cs.Frames = append(cs.Frames, fr)
			lastFrame = fr
			cur, curRule = nil, nil
		case "property":
			ps := strings.Fields(strings.ReplaceAll(rest, ",", " "))
			if cur != nil {
				cur.Props = append(cur.Props, ps...)
				cur.segProps = ps
			} else if curRule != nil {
				curRule.Props = append(curRule.Props, ps...)
			} else if lastFrame != nil {
				lastFrame.Props = append(lastFrame.Props, ps...)
			} else if n := len(cs.Axioms); n > 0 {
				cs.Axioms[n-1].Props = append(cs.Axioms[n-1].Props, ps...)
			} else {
				return fail("property outside block")
			}
		case "mode":
			if cur != nil {
				if rest != "bv" && rest != "int" {
					return fail("mode must be bv or int")
				}
				cur.Mode = rest
			} else if n := len(cs.Axioms); n > 0 {
				cs.Axioms[n-1].Mode = rest
			}
		case "sweep":
			if cur == nil {
				return fail("sweep outside func")
			}
			cur.Sweep = true
			if rest != "" {
				cur.SweepKinds = append(cur.SweepKinds, splitList(rest)...)
			}
		case "immutable":
			if curRule == nil {
				return fail("immutable outside callrule")
			}
			curRule.Immutable = append(curRule.Immutable, splitList(rest)...)
		case "optional":
			if curRule == nil {
				return fail("optional outside callrule")
			}
			curRule.Optional = true
		case "pureeffect":
			if curRule != nil {
				curRule.Pure = true
				continue
			}
			if cur == nil {
				return fail("pureeffect outside func")
			}
			cur.Pure = true
			cur.AssignsSet = true
		case "canary":
			if cur == nil {
				return fail("canary outside func")
			}
			cur.Canary = true
		case "opt":
			if cur == nil {
				return fail("opt outside func")
			}
			k, v, _ := strings.Cut(rest, "=")
			cur.Opts[strings.TrimSpace(k)] = strings.TrimSpace(v)
		case "results":
			if cur == nil {
				return fail("results outside func")
			}
			cur.Names = strings.Fields(strings.ReplaceAll(rest, ",", " "))
		case "assigns":
			if curRule != nil {
				curRule.Assigns = append(curRule.Assigns, splitList(rest)...)
				continue
			}
			if cur == nil {
				return fail("assigns outside func")
			}
			cur.AssignsSet = true
			if rest != "nothing" {
				cur.Assigns = append(cur.Assigns, splitList(rest)...)
			}
		case "valid":
			if cur == nil {
				return fail("valid outside func")
			}
			c, _ := mkClause(rest)
			lastClause = c
			pending = append(pending, c)
			cur.Valid = append(cur.Valid, c)
		case "captured":
			if cur == nil || curRule != nil {
				return fail("captured outside func")
			}
			c, _ := mkClause(rest)
			lastClause = c
			pending = append(pending, c)
			cur.Captured = append(cur.Captured, c)
		case "requires", "ensures", "defines":
			c, _ := mkClause(rest)
			lastClause = c
			pending = append(pending, c)
			if curRule != nil && kw == "requires" {
				curRule.Requires = append(curRule.Requires, c)
			} else if curRule != nil && (kw == "ensures" || kw == "defines") {
				curRule.Ensures = append(curRule.Ensures, c)
			} else if cur != nil {
				if kw == "requires" {
					cur.Requires = append(cur.Requires, c)
				} else if kw == "defines" {
					cur.Defines = append(cur.Defines, c)
				} else {
					cur.Ensures = append(cur.Ensures, c)
				}
			} else {
				return fail("%s outside block", kw)
			}
		case "loop":
			if cur == nil {
				return fail("loop outside func")
			}
			f := strings.SplitN(rest, " ", 3)
			if len(f) < 3 {
				return fail("loop N invariant|decreases|modifies expr")
			}
			n, err := strconv.Atoi(f[0])
			if err != nil {
				return fail("bad loop ordinal")
			}
			switch f[1] {
			case "invariant":
				c, _ := mkClause(f[2])
				lastClause = c
				pending = append(pending, c)
				cur.LoopInv[n] = append(cur.LoopInv[n], c)
			case "decreases":
				c, _ := mkClause(f[2])
				lastClause = c
				pending = append(pending, c)
				cur.LoopDec[n] = c
			case "iteration":
				c, _ := mkClause(f[2])
				lastClause = c
				pending = append(pending, c)
				if cur.LoopIter == nil {
					cur.LoopIter = map[int][]*Clause{}
				}
				cur.LoopIter[n] = append(cur.LoopIter[n], c)
			case "modifies":
				cur.LoopMod[n] = append(cur.LoopMod[n], splitList(f[2])...)
			default:
				return fail("unknown loop clause %q", f[1])
			}
		default:
			return fail("unknown contract keyword %q", kw)
		}
	}
	if err := flush(); err != nil {
		return err
	}
	return sc.Err()
}

func splitList(s string) []string {
	var out []string
	depth := 0
	start := 0
	for i, c := range s {
		switch c {
		case '(', '{':
			depth++
		case ')', '}':
			if depth > 0 {
				depth--
			}
		case ',':
			if depth == 0 {
				if t := strings.TrimSpace(s[start:i]); t != "" {
					out = append(out, t)
				}
				start = i + 1
			}
		}
	}
	if t := strings.TrimSpace(s[start:]); t != "" {
		out = append(out, t)
	}
	return out
}
