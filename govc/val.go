package main

// Symbolic values and the memory model (DESIGN.md §4.2).

import (
	"fmt"
	"go/types"
	"math/big"
	"strings"

	"golang.org/x/tools/go/ssa"
)

const (
	VScalar = iota // S: term of a scalar sort (ints, bools, refs, string ids, by-value arrays of scalars)
	VSlice         // Arr, Off, Len, Cap
	VStruct        // F
	VTuple         // F
)

type Val struct {
	K                  int
	T                  types.Type
	S                  string
	F                  []*Val
	Arr, Off, Len, Cap string
	Loc                *Loc // for pointer values: what the pointer designates, when statically known
	Wide               bool // spec-only 128-bit value (bv mode)
	Lit                *big.Int // untyped integer literal (spec only)
	Prov               string   // provenance: SMT Int term naming the call that produced this value ("" = none)
}

type pathElem struct {
	Field int    // >=0: struct field
	Idx   string // non-empty: index into by-value array
}

const (
	LLocal = iota // exact local cell
	LMap          // heap map Name indexed by Keys (1 or 2)
	LConst        // a captured variable that nobody writes after capture: fixed content
)

type Loc struct {
	Kind  int
	Alloc *ssa.Alloc
	Path  []pathElem
	// LMap: a scalar-ish (non-struct) location, type T, stored in maps Prefix|leaf
	Prefix string
	Keys   []string
	T      types.Type
	Const  *Val // LConst
}

// State: versioned heap + exact locals.
type State struct {
	epoch  *Epoch
	over   map[string]string
	locals map[*ssa.Alloc]*Val
}

type Epoch struct {
	id    int
	kind  int // 0 initial, 1 havoc (prev kept for ghost/immune maps), 2 merge
	prev  *State
	keep  func(name string) bool
	preds []mergePred
	memo  map[string]string
}

type mergePred struct {
	cond string
	st   *State
}

func (s *State) clone() *State {
	n := &State{epoch: s.epoch, over: map[string]string{}, locals: map[*ssa.Alloc]*Val{}}
	for k, v := range s.over {
		n.over[k] = v
	}
	for k, v := range s.locals {
		n.locals[k] = v
	}
	return n
}

// ---------------------------------------------------------------- sorts

func (c *Ctx) idxSort() string {
	if c.mode == "int" {
		return "Int"
	}
	return "(_ BitVec 64)"
}

func intInfo(t types.Type) (bits int, signed bool, ok bool) {
	b, isB := t.Underlying().(*types.Basic)
	if !isB {
		return 0, false, false
	}
	switch b.Kind() {
	case types.Int8:
		return 8, true, true
	case types.Int16:
		return 16, true, true
	case types.Int32:
		return 32, true, true
	case types.Int64, types.Int, types.UntypedInt, types.UntypedRune:
		return 64, true, true
	case types.Uint8:
		return 8, false, true
	case types.Uint16:
		return 16, false, true
	case types.Uint32:
		return 32, false, true
	case types.Uint64, types.Uint, types.Uintptr:
		return 64, false, true
	}
	return 0, false, false
}

func isBool(t types.Type) bool {
	b, ok := t.Underlying().(*types.Basic)
	return ok && b.Info()&types.IsBoolean != 0
}
func isString(t types.Type) bool {
	b, ok := t.Underlying().(*types.Basic)
	return ok && b.Info()&types.IsString != 0
}

// scalarSort returns the SMT sort for a type represented as one term, or "" if composite.
func (c *Ctx) scalarSort(t types.Type) string {
	if t == nil {
		return "Int"
	}
	if w, ok := t.(*wideType); ok {
		_ = w
		if c.mode == "int" {
			return "Int"
		}
		return fmt.Sprintf("(_ BitVec %d)", c.wideBits())
	}
	switch u := t.Underlying().(type) {
	case *types.Basic:
		if bits, _, ok := intInfo(t); ok {
			if c.mode == "int" {
				return "Int"
			}
			return fmt.Sprintf("(_ BitVec %d)", bits)
		}
		if isBool(t) {
			return "Bool"
		}
		return "Int" // strings (ids), floats/complex (opaque), unsafe.Pointer
	case *types.Array:
		es := c.scalarSort(u.Elem())
		if es == "" || strings.HasPrefix(es, "(Array") {
			return "Int" // opaque
		}
		return "(Array " + c.idxSort() + " " + es + ")"
	case *types.Struct, *types.Slice, *types.Tuple:
		return ""
	}
	return "Int"
}

// wideType: spec-only integer type (mathematical in int mode, 128-bit signed in bv mode)
type wideType struct{ types.Type }

func (w *wideType) Underlying() types.Type { return w }
func (w *wideType) String() string         { return "wide" }

var theWide = &wideType{}

func typeKey(t types.Type) string {
	return types.TypeString(t, func(p *types.Package) string { return p.Path() })
}

func isScalarArray(t types.Type) (*types.Array, bool) {
	a, ok := t.Underlying().(*types.Array)
	if !ok {
		return nil, false
	}
	switch a.Elem().Underlying().(type) {
	case *types.Basic, *types.Pointer, *types.Interface, *types.Signature, *types.Map, *types.Chan:
		return a, true
	}
	return nil, false
}

// ---------------------------------------------------------------- literals & fresh values

func (c *Ctx) intConst(v *big.Int, t types.Type) string {
	if _, ok := t.(*wideType); ok {
		if c.mode == "int" {
			return intLit(v)
		}
		return bvLit(v, c.wideBits())
	}
	if c.mode == "int" {
		return intLit(v)
	}
	bits, _, ok := intInfo(t)
	if !ok {
		bits = 64
	}
	return bvLit(v, bits)
}

func (c *Ctx) idxConst(n int64) string {
	if c.mode == "int" {
		return intLit(big.NewInt(n))
	}
	return bvLit(big.NewInt(n), 64)
}

func (c *Ctx) freshName(hint string) string {
	if c.stableNames {
		// parameters keep suffix-free names so that known-finding regions and replay
		// templates can refer to them across runs
		n := quoteSym(hint)
		if !c.declared[n] {
			return n
		}
	}
	c.fresh++
	return quoteSym(fmt.Sprintf("%s!%d", hint, c.fresh))
}

func (c *Ctx) declare(name, sort string) {
	if c.declared[name] {
		return
	}
	c.declared[name] = true
	c.decls = append(c.decls, fmt.Sprintf("(declare-fun %s () %s)", name, sort))
}

func (c *Ctx) declareFun(name string, args []string, ret string) {
	if c.declared[name] {
		return
	}
	c.declared[name] = true
	c.decls = append(c.decls, fmt.Sprintf("(declare-fun %s (%s) %s)", name, strings.Join(args, " "), ret))
}

func (c *Ctx) define(hint, sort, term string) string {
	// name a term to keep formulas DAG-shaped
	if len(term) < 40 {
		return term
	}
	n := c.freshName(hint)
	c.declared[n] = true
	c.decls = append(c.decls, fmt.Sprintf("(define-fun %s () %s %s)", n, sort, term))
	return n
}

// rangeFact: type invariant of an integer term in int mode.
func (c *Ctx) rangeFact(term string, t types.Type) string {
	if c.mode != "int" || t == nil {
		return "true"
	}
	if _, ok := t.(*wideType); ok {
		return "true"
	}
	bits, signed, ok := intInfo(t)
	if !ok {
		return "true"
	}
	one := big.NewInt(1)
	if signed {
		lo := new(big.Int).Neg(new(big.Int).Lsh(one, uint(bits-1)))
		hi := new(big.Int).Sub(new(big.Int).Lsh(one, uint(bits-1)), one)
		return sAnd("(<= "+intLit(lo)+" "+term+")", "(<= "+term+" "+intLit(hi)+")")
	}
	hi := new(big.Int).Sub(new(big.Int).Lsh(one, uint(bits)), one)
	return sAnd("(<= 0 "+term+")", "(<= "+term+" "+intLit(hi)+")")
}

const allocBound = 1 << 48

// sliceWF: well-formedness of a slice value (assumed for every slice that comes from outside).
func (c *Ctx) sliceWF(v *Val) string {
	if c.mode == "int" {
		return sAnd("(<= 0 "+v.Off+")", "(<= 0 "+v.Len+")", "(<= "+v.Len+" "+v.Cap+")", fmt.Sprintf("(<= %s %d)", v.Cap, int64(allocBound)), fmt.Sprintf("(<= %s %d)", v.Off, int64(allocBound)),
			sImp(sEq(v.Arr, "0"), sAnd(sEq(v.Len, "0"), sEq(v.Cap, "0"))))
	}
	b := c.idxConst(allocBound)
	return sAnd("(bvule "+v.Len+" "+v.Cap+")", "(bvule "+v.Cap+" "+b+")", "(bvule "+v.Off+" "+b+")",
		sImp(sEq(v.Arr, "0"), sAnd(sEq(v.Len, c.idxConst(0)), sEq(v.Cap, c.idxConst(0)))))
}

func (c *Ctx) fresh1(hint, sort string) string {
	n := c.freshName(hint)
	c.declare(n, sort)
	return n
}

// freshVal creates an unconstrained value of Go type t (with type invariants assumed).
func (c *Ctx) freshVal(t types.Type, hint string) *Val {
	switch u := t.Underlying().(type) {
	case *types.Struct:
		v := &Val{K: VStruct, T: t}
		for i := 0; i < u.NumFields(); i++ {
			v.F = append(v.F, c.freshVal(u.Field(i).Type(), hint+"."+u.Field(i).Name()))
		}
		return v
	case *types.Tuple:
		v := &Val{K: VTuple, T: t}
		for i := 0; i < u.Len(); i++ {
			v.F = append(v.F, c.freshVal(u.At(i).Type(), fmt.Sprintf("%s.%d", hint, i)))
		}
		return v
	case *types.Slice:
		v := &Val{K: VSlice, T: t}
		v.Arr = c.fresh1(hint+".arr", "Int")
		v.Off = c.fresh1(hint+".off", c.idxSort())
		v.Len = c.fresh1(hint+".len", c.idxSort())
		v.Cap = c.fresh1(hint+".cap", c.idxSort())
		c.asserts = append(c.asserts, c.sliceWF(v))
		return v
	}
	s := c.scalarSort(t)
	v := &Val{K: VScalar, T: t, S: c.fresh1(hint, s)}
	if rf := c.rangeFact(v.S, t); rf != "true" {
		c.asserts = append(c.asserts, rf)
	}
	if isString(t) {
		c.asserts = append(c.asserts, c.strWF(v.S))
	}
	return v
}

func (c *Ctx) strLenFn() string {
	c.declareFun("slen", []string{"Int"}, c.idxSort())
	return "slen"
}

func (c *Ctx) strWF(id string) string {
	l := sApp(c.strLenFn(), id)
	if c.mode == "int" {
		return sAnd("(<= 0 "+l+")", fmt.Sprintf("(<= %s %d)", l, int64(allocBound)))
	}
	return "(bvule " + l + " " + c.idxConst(allocBound) + ")"
}

func (c *Ctx) byteSort() string {
	if c.mode == "int" {
		return "Int"
	}
	return "(_ BitVec 8)"
}

func (c *Ctx) strByteFn() string {
	c.declareFun("sbyte", []string{"Int", c.idxSort()}, c.byteSort())
	return "sbyte"
}

// strLit returns the id of a string literal, with its length and bytes asserted.
func (c *Ctx) strLit(s string) string {
	if id, ok := c.strLits[s]; ok {
		return id
	}
	id := fmt.Sprintf("strlit!%d", len(c.strLits))
	c.declare(id, "Int")
	c.strLits[s] = id
	c.asserts = append(c.asserts, sEq(sApp(c.strLenFn(), id), c.idxConst(int64(len(s)))))
	if len(s) <= 64 {
		for i := 0; i < len(s); i++ {
			c.asserts = append(c.asserts, sEq(sApp(c.strByteFn(), id, c.idxConst(int64(i))), c.intConst(big.NewInt(int64(s[i])), types.Typ[types.Uint8])))
		}
	}
	// distinct from other literals
	for o, oid := range c.strLits {
		if o != s {
			c.asserts = append(c.asserts, sNot(sEq(id, oid)))
		}
	}
	return id
}

func (c *Ctx) zeroVal(t types.Type) *Val {
	switch u := t.Underlying().(type) {
	case *types.Struct:
		v := &Val{K: VStruct, T: t}
		for i := 0; i < u.NumFields(); i++ {
			v.F = append(v.F, c.zeroVal(u.Field(i).Type()))
		}
		return v
	case *types.Tuple:
		v := &Val{K: VTuple, T: t}
		for i := 0; i < u.Len(); i++ {
			v.F = append(v.F, c.zeroVal(u.At(i).Type()))
		}
		return v
	case *types.Slice:
		z := c.idxConst(0)
		return &Val{K: VSlice, T: t, Arr: "0", Off: z, Len: z, Cap: z}
	case *types.Array:
		s := c.scalarSort(t)
		if strings.HasPrefix(s, "(Array") {
			ez := c.zeroVal(u.Elem())
			return &Val{K: VScalar, T: t, S: "((as const " + s + ") " + ez.S + ")"}
		}
		return c.freshVal(t, "zeroarr") // opaque
	case *types.Basic:
		if _, _, ok := intInfo(t); ok {
			return &Val{K: VScalar, T: t, S: c.intConst(big.NewInt(0), t)}
		}
		if isBool(t) {
			return &Val{K: VScalar, T: t, S: "false"}
		}
		if isString(t) {
			return &Val{K: VScalar, T: t, S: c.strLit("")}
		}
		return c.freshVal(t, "zero")
	}
	return &Val{K: VScalar, T: t, S: "0"} // nil ref
}

// ite over values (same shape)
func (c *Ctx) iteVal(cond string, a, b *Val) *Val {
	if a == b || cond == "true" {
		return a
	}
	if cond == "false" {
		return b
	}
	if a == nil || b == nil {
		return nil
	}
	switch a.K {
	case VScalar:
		v := &Val{K: VScalar, T: a.T, S: sIte(cond, a.S, b.S), Wide: a.Wide}
		if a.Prov != "" || b.Prov != "" {
			pa, pb := a.Prov, b.Prov
			if pa == "" {
				pa = "0"
			}
			if pb == "" {
				pb = "0"
			}
			v.Prov = sIte(cond, pa, pb)
		}
		if a.Loc != nil && b.Loc != nil && sameLoc(a.Loc, b.Loc) {
			v.Loc = a.Loc
		}
		return v
	case VSlice:
		return &Val{K: VSlice, T: a.T, Arr: sIte(cond, a.Arr, b.Arr), Off: sIte(cond, a.Off, b.Off), Len: sIte(cond, a.Len, b.Len), Cap: sIte(cond, a.Cap, b.Cap)}
	default:
		v := &Val{K: a.K, T: a.T}
		for i := range a.F {
			v.F = append(v.F, c.iteVal(cond, a.F[i], b.F[i]))
		}
		return v
	}
}

func sameLoc(a, b *Loc) bool {
	if a.Kind != b.Kind || a.Alloc != b.Alloc || a.Prefix != b.Prefix || len(a.Keys) != len(b.Keys) || len(a.Path) != len(b.Path) {
		return false
	}
	for i := range a.Keys {
		if a.Keys[i] != b.Keys[i] {
			return false
		}
	}
	for i := range a.Path {
		if a.Path[i] != b.Path[i] {
			return false
		}
	}
	return true
}

// eqVal: structural equality of two values
func (c *Ctx) eqVal(a, b *Val) string {
	switch a.K {
	case VScalar:
		return sEq(a.S, b.S)
	case VSlice:
		return sAnd(sEq(a.Arr, b.Arr), sEq(a.Off, b.Off), sEq(a.Len, b.Len), sEq(a.Cap, b.Cap))
	default:
		var cs []string
		for i := range a.F {
			cs = append(cs, c.eqVal(a.F[i], b.F[i]))
		}
		return sAnd(cs...)
	}
}

// leaves: flatten a value into scalar terms (for uninterpreted function arguments)
func (c *Ctx) flatten(v *Val, out *[]string, sorts *[]string) {
	switch v.K {
	case VScalar:
		*out = append(*out, v.S)
		if sorts != nil {
			if v.Wide {
				*sorts = append(*sorts, c.scalarSort(theWide))
			} else {
				*sorts = append(*sorts, c.scalarSort(v.T))
			}
		}
	case VSlice:
		*out = append(*out, v.Arr, v.Off, v.Len, v.Cap)
		if sorts != nil {
			*sorts = append(*sorts, "Int", c.idxSort(), c.idxSort(), c.idxSort())
		}
	default:
		for _, f := range v.F {
			c.flatten(f, out, sorts)
		}
	}
}

// typeSorts: sorts of the flattened leaves of a type
func (c *Ctx) typeSorts(t types.Type, out *[]string) {
	switch u := t.Underlying().(type) {
	case *types.Struct:
		for i := 0; i < u.NumFields(); i++ {
			c.typeSorts(u.Field(i).Type(), out)
		}
	case *types.Tuple:
		for i := 0; i < u.Len(); i++ {
			c.typeSorts(u.At(i).Type(), out)
		}
	case *types.Slice:
		*out = append(*out, "Int", c.idxSort(), c.idxSort(), c.idxSort())
	default:
		if _, ok := t.(*wideType); ok {
			*out = append(*out, c.scalarSort(t))
			return
		}
		*out = append(*out, c.scalarSort(t))
	}
}

// unflatten builds a value of type t from leaf terms
func (c *Ctx) unflatten(t types.Type, terms []string, pos *int) *Val {
	switch u := t.Underlying().(type) {
	case *types.Struct:
		v := &Val{K: VStruct, T: t}
		for i := 0; i < u.NumFields(); i++ {
			v.F = append(v.F, c.unflatten(u.Field(i).Type(), terms, pos))
		}
		return v
	case *types.Tuple:
		v := &Val{K: VTuple, T: t}
		for i := 0; i < u.Len(); i++ {
			v.F = append(v.F, c.unflatten(u.At(i).Type(), terms, pos))
		}
		return v
	case *types.Slice:
		v := &Val{K: VSlice, T: t, Arr: terms[*pos], Off: terms[*pos+1], Len: terms[*pos+2], Cap: terms[*pos+3]}
		*pos += 4
		return v
	}
	v := &Val{K: VScalar, T: t, S: terms[*pos]}
	*pos++
	return v
}

// ---------------------------------------------------------------- heap maps

func (c *Ctx) newInitialState() *State {
	return &State{epoch: &Epoch{id: 0, memo: map[string]string{}}, over: map[string]string{}, locals: map[*ssa.Alloc]*Val{}}
}

func (c *Ctx) mapSort(name string) string { return c.heapSorts[name] }

func (c *Ctx) registerMap(name, sort string) {
	if old, ok := c.heapSorts[name]; ok && old != sort {
		panic(fmt.Sprintf("heap map %s sort conflict %s vs %s", name, old, sort))
	}
	c.heapSorts[name] = sort
}

func (c *Ctx) lookup(st *State, name string) string {
	if t, ok := st.over[name]; ok {
		return t
	}
	return c.resolveEpoch(st.epoch, name)
}

func (c *Ctx) resolveEpoch(e *Epoch, name string) string {
	if t, ok := e.memo[name]; ok {
		return t
	}
	var t string
	switch e.kind {
	case 0:
		t = quoteSym(fmt.Sprintf("%s@0", name))
		c.declare(t, c.heapSorts[name])
	case 1:
		if e.keep != nil && e.keep(name) {
			t = c.lookup(e.prev, name)
		} else {
			t = quoteSym(fmt.Sprintf("%s@%d", name, e.id))
			c.declare(t, c.heapSorts[name])
		}
	case 2:
		terms := make([]string, len(e.preds))
		same := true
		for i, p := range e.preds {
			terms[i] = c.lookup(p.st, name)
			if terms[i] != terms[0] {
				same = false
			}
		}
		if same {
			t = terms[0]
		} else {
			t = terms[len(terms)-1]
			for i := len(terms) - 2; i >= 0; i-- {
				t = sIte(e.preds[i].cond, terms[i], t)
			}
			t = c.define("hm", c.heapSorts[name], t)
		}
	}
	e.memo[name] = t
	return t
}

func (c *Ctx) newEpochID() int { c.epochSeq++; return c.epochSeq }

// havocHeap: everything not kept gets a fresh version
func (c *Ctx) havocHeap(st *State, keep func(string) bool) {
	prev := &State{epoch: st.epoch, over: st.over}
	st.epoch = &Epoch{id: c.newEpochID(), kind: 1, prev: prev, keep: keep, memo: map[string]string{}}
	st.over = map[string]string{}
}

func (c *Ctx) havocMap(st *State, name string) {
	if _, ok := c.heapSorts[name]; !ok {
		return
	}
	st.over[name] = c.fresh1(name+"@h", c.heapSorts[name])
}

// isGhostMap: heap maps that an un-contracted call does not havoc: ghost fields (they change
// only through contracts) and fields the contract declares immutable for the duration of
// the call (opt immutable=T.field,...; listed as an assumption in the evidence).
func (c *Ctx) isGhostMap(name string) bool {
	if strings.HasPrefix(name, "G|") {
		return true
	}
	return c.isImmutableMap(name)
}

func (c *Ctx) isImmutableMap(name string) bool {
	if c.con != nil {
		if im := c.con.Opts["immutable"]; im != "" {
			for _, pat := range strings.Split(im, ",") {
				if c.assignMatches(strings.TrimSpace(pat), name) {
					return true
				}
			}
		}
	}
	// callrule clause `immutable T.field`: assumed constant while a function the rule is
	// active in runs (e.g. a field only written under a lock the function holds for reading)
	for _, r := range c.activeRules {
		for _, pat := range r.Immutable {
			if c.assignMatches(pat, name) {
				c.definesUsed["callrule "+r.Name+": "+pat+" is assumed constant during one invocation"] = true
				return true
			}
		}
	}
	return false
}

// mergeStates joins predecessor states
func (c *Ctx) mergeStates(preds []mergePred) *State {
	if len(preds) == 1 {
		return preds[0].st.clone()
	}
	n := &State{over: map[string]string{}, locals: map[*ssa.Alloc]*Val{}}
	same := true
	for _, p := range preds[1:] {
		if p.st.epoch != preds[0].st.epoch || len(p.st.over) != 0 || len(preds[0].st.over) != 0 {
			same = false
		}
	}
	if same {
		n.epoch = preds[0].st.epoch
	} else {
		n.epoch = &Epoch{id: c.newEpochID(), kind: 2, preds: preds, memo: map[string]string{}}
	}
	// locals
	keys := map[*ssa.Alloc]bool{}
	for _, p := range preds {
		for a := range p.st.locals {
			keys[a] = true
		}
	}
	for a := range keys {
		var cur *Val
		ok := true
		for i := len(preds) - 1; i >= 0; i-- {
			v := preds[i].st.locals[a]
			if v == nil {
				ok = false
				break
			}
			if cur == nil {
				cur = v
			} else {
				cur = c.iteVal(preds[i].cond, v, cur)
			}
		}
		if ok {
			n.locals[a] = cur
		}
	}
	return n
}

// ---- typed access

func fieldPrefix(st types.Type, i int) string { return fmt.Sprintf("F|%s|%d", typeKey(st), i) }
func cellPrefix(t types.Type) string            { return "C|" + typeKey(t) }
func elemPrefix(t types.Type) string            { return "A|" + typeKey(t) }

func isStruct(t types.Type) bool { _, ok := t.Underlying().(*types.Struct); return ok }

func (c *Ctx) subAddr(st types.Type, i int, base string) string {
	fn := quoteSym(fmt.Sprintf("sub|%s|%d", typeKey(st), i))
	if !c.declared[fn] {
		c.declareFun(fn, []string{"Int"}, "Int")
		inv := quoteSym(fmt.Sprintf("subinv|%s|%d", typeKey(st), i))
		c.declareFun(inv, []string{"Int"}, "Int")
		c.addAxiom(fmt.Sprintf("(forall ((r Int)) (! (and (= (%s (%s r)) r) (not (= (%s r) 0))) :pattern ((%s r))))", inv, fn, fn, fn))
	}
	c.groundNZ(sApp(fn, base))
	return sApp(fn, base)
}

// noteArrField: the memory of an array-typed field (struct type T, field i) is disjoint from
// the array fields of every other (type, field) and from every separately allocated object.
// Stated as ground facts between the address terms a function actually uses (no quantifiers).
func (c *Ctx) noteArrField(sym, term string) {
	if c.arrFieldSeen == nil {
		c.arrFieldSeen = map[string]string{}
	}
	if _, ok := c.arrFieldSeen[term]; ok || len(c.arrFieldSeen) > 60 || len(term) > 300 {
		return
	}
	for t2, s2 := range c.arrFieldSeen {
		if s2 != sym {
			c.asserts = append(c.asserts, sNot(sEq(term, t2)))
		}
	}
	for _, r := range c.allocRefs {
		c.asserts = append(c.asserts, sNot(sEq(term, r)))
	}
	c.arrFieldSeen[term] = sym
}

func (c *Ctx) elemAddr(t types.Type, arr, idx string) string {
	fn := quoteSym("elem|" + typeKey(t))
	if !c.declared[fn] {
		c.declareFun(fn, []string{"Int", c.idxSort()}, "Int")
		i1 := quoteSym("elemarr|" + typeKey(t))
		i2 := quoteSym("elemidx|" + typeKey(t))
		c.declareFun(i1, []string{"Int"}, "Int")
		c.declareFun(i2, []string{"Int"}, c.idxSort())
		c.addAxiom(fmt.Sprintf("(forall ((a Int) (i %s)) (! (and (= (%s (%s a i)) a) (= (%s (%s a i)) i) (not (= (%s a i) 0))) :pattern ((%s a i))))", c.idxSort(), i1, fn, i2, fn, fn, fn))
	}
	c.groundNZ(sApp(fn, arr, idx))
	return sApp(fn, arr, idx)
}

// leafNames of a non-struct type stored under prefix
type leaf struct {
	suffix string
	sort   string
}

func (c *Ctx) leavesOf(t types.Type) []leaf {
	switch t.Underlying().(type) {
	case *types.Slice:
		return []leaf{{".arr", "Int"}, {".off", c.idxSort()}, {".len", c.idxSort()}, {".cap", c.idxSort()}}
	}
	return []leaf{{"", c.scalarSort(t)}}
}

func (c *Ctx) mapRead(st *State, prefix string, keys []string, t types.Type) *Val {
	ls := c.leavesOf(t)
	terms := make([]string, len(ls))
	for i, l := range ls {
		name := prefix + l.suffix
		sort := "(Array Int " + l.sort + ")"
		if len(keys) == 2 {
			sort = "(Array Int (Array " + c.idxSort() + " " + l.sort + "))"
		}
		c.registerMap(name, sort)
		m := c.lookup(st, name)
		if len(keys) == 2 {
			terms[i] = "(select (select " + m + " " + keys[0] + ") " + keys[1] + ")"
		} else {
			terms[i] = "(select " + m + " " + keys[0] + ")"
		}
	}
	pos := 0
	v := c.unflatten(t, terms, &pos)
	c.assumeTypeInv(v)
	return v
}

// assumeTypeInv adds the type invariants of a value read from memory
func (c *Ctx) assumeTypeInv(v *Val) {
	switch v.K {
	case VScalar:
		if rf := c.rangeFact(v.S, v.T); rf != "true" {
			c.assumeHere(rf)
		}
		if v.T != nil && isString(v.T) {
			c.assumeHere(c.strWF(v.S))
		}
	case VSlice:
		c.assumeHere(c.sliceWF(v))
	default:
		for _, f := range v.F {
			c.assumeTypeInv(f)
		}
	}
}

func (c *Ctx) mapWrite(st *State, prefix string, keys []string, t types.Type, v *Val) {
	ls := c.leavesOf(t)
	var terms []string
	c.flatten(v, &terms, nil)
	if len(terms) != len(ls) {
		panic(fmt.Sprintf("mapWrite: leaf count mismatch for %s: %d vs %d", typeKey(t), len(terms), len(ls)))
	}
	for i, l := range ls {
		name := prefix + l.suffix
		sort := "(Array Int " + l.sort + ")"
		if len(keys) == 2 {
			sort = "(Array Int (Array " + c.idxSort() + " " + l.sort + "))"
		}
		c.registerMap(name, sort)
		m := c.lookup(st, name)
		var nm string
		if len(keys) == 2 {
			nm = "(store " + m + " " + keys[0] + " (store (select " + m + " " + keys[0] + ") " + keys[1] + " " + terms[i] + "))"
		} else {
			nm = "(store " + m + " " + keys[0] + " " + terms[i] + ")"
		}
		st.over[name] = c.define("hw", sort, nm)
	}
}

// loadObj: load a value of type t stored at object address addr
// (struct: per-field maps; by-value scalar array: A|elem at arr id addr; other: cell maps)
func (c *Ctx) loadObj(st *State, addr string, t types.Type) *Val {
	switch u := t.Underlying().(type) {
	case *types.Struct:
		v := &Val{K: VStruct, T: t}
		for i := 0; i < u.NumFields(); i++ {
			v.F = append(v.F, c.loadField(st, addr, t, i))
		}
		return v
	case *types.Array:
		if _, ok := isScalarArray(t); ok {
			name := elemPrefix(u.Elem())
			sort := "(Array Int (Array " + c.idxSort() + " " + c.scalarSort(u.Elem()) + "))"
			c.registerMap(name, sort)
			return &Val{K: VScalar, T: t, S: "(select " + c.lookup(st, name) + " " + addr + ")"}
		}
	}
	return c.mapRead(st, cellPrefix(t), []string{addr}, t)
}

func (c *Ctx) storeObj(st *State, addr string, t types.Type, v *Val) {
	switch u := t.Underlying().(type) {
	case *types.Struct:
		for i := 0; i < u.NumFields(); i++ {
			c.storeField(st, addr, t, i, v.F[i])
		}
		return
	case *types.Array:
		if _, ok := isScalarArray(t); ok {
			name := elemPrefix(u.Elem())
			sort := "(Array Int (Array " + c.idxSort() + " " + c.scalarSort(u.Elem()) + "))"
			c.registerMap(name, sort)
			st.over[name] = c.define("hw", sort, "(store "+c.lookup(st, name)+" "+addr+" "+v.S+")")
			return
		}
	}
	c.mapWrite(st, cellPrefix(t), []string{addr}, t, v)
}

func (c *Ctx) arrFieldAddr(st types.Type, i int, base string) string {
	fn := quoteSym(fmt.Sprintf("arrf|%s|%d", typeKey(st), i))
	if !c.declared[fn] {
		c.declareFun(fn, []string{"Int"}, "Int")
		inv := quoteSym(fmt.Sprintf("arrfinv|%s|%d", typeKey(st), i))
		c.declareFun(inv, []string{"Int"}, "Int")
		c.addAxiom(fmt.Sprintf("(forall ((r Int)) (! (and (= (%s (%s r)) r) (not (= (%s r) 0))) :pattern ((%s r))))", inv, fn, fn, fn))
	}
	c.groundNZ(sApp(fn, base))
	c.noteArrField(fn, sApp(fn, base))
	return sApp(fn, base)
}

func (c *Ctx) loadField(st *State, base string, stT types.Type, i int) *Val {
	c.P.typeByKey[typeKey(stT)] = stT
	ft := stT.Underlying().(*types.Struct).Field(i).Type()
	if isStruct(ft) {
		return c.loadObj(st, c.subAddr(stT, i, base), ft)
	}
	if _, ok := isScalarArray(ft); ok {
		return c.loadObj(st, c.arrFieldAddr(stT, i, base), ft)
	}
	return c.mapRead(st, fieldPrefix(stT, i), []string{base}, ft)
}

func (c *Ctx) storeField(st *State, base string, stT types.Type, i int, v *Val) {
	c.P.typeByKey[typeKey(stT)] = stT
	ft := stT.Underlying().(*types.Struct).Field(i).Type()
	if isStruct(ft) {
		c.storeObj(st, c.subAddr(stT, i, base), ft, v)
		return
	}
	if _, ok := isScalarArray(ft); ok {
		c.storeObj(st, c.arrFieldAddr(stT, i, base), ft, v)
		return
	}
	c.mapWrite(st, fieldPrefix(stT, i), []string{base}, ft, v)
}

// project / update inside a local value tree
func (c *Ctx) projPath(v *Val, path []pathElem) *Val {
	for _, pe := range path {
		if pe.Idx != "" {
			at := v.T.Underlying().(*types.Array)
			v = &Val{K: VScalar, T: at.Elem(), S: "(select " + v.S + " " + pe.Idx + ")"}
			c.assumeTypeInv(v)
		} else {
			v = v.F[pe.Field]
		}
	}
	return v
}

func (c *Ctx) updPath(v *Val, path []pathElem, nv *Val) *Val {
	if len(path) == 0 {
		return nv
	}
	pe := path[0]
	if pe.Idx != "" {
		if len(path) != 1 {
			panic("nested array path")
		}
		return &Val{K: VScalar, T: v.T, S: "(store " + v.S + " " + pe.Idx + " " + nv.S + ")"}
	}
	n := &Val{K: v.K, T: v.T, F: append([]*Val(nil), v.F...)}
	n.F[pe.Field] = c.updPath(v.F[pe.Field], path[1:], nv)
	return n
}

// wideBits: width of spec-only `wide` integers in bv mode (contract option wide=N, default 128)
func (c *Ctx) wideBits() int {
	if c.con != nil {
		if w, ok := c.con.Opts["wide"]; ok {
			var n int
			if _, err := fmt.Sscan(w, &n); err == nil && n >= 65 && n <= 512 {
				return n
			}
		}
	}
	return 128
}

// addAxiom: quantified injectivity axioms for interior-address functions are only emitted
// when the contract asks for them (opt injective=true); quantifiers in the background
// make the solvers unable to report counterexamples for failing obligations.
func (c *Ctx) addAxiom(a string) {
	if c.con != nil && c.con.Opts["injective"] == "true" {
		c.axioms = append(c.axioms, a)
	}
}

// groundNZ: an interior address is never nil (ground instance; not under a binder)
func (c *Ctx) groundNZ(term string) {
	if strings.Contains(term, "q!") || strings.Contains(term, " r)") && strings.HasSuffix(term, " r)") {
		return
	}
	if c.nzDone == nil {
		c.nzDone = map[string]bool{}
	}
	if c.nzDone[term] {
		return
	}
	c.nzDone[term] = true
	c.asserts = append(c.asserts, sImp(c.curReach, sNot(sEq(term, "0"))))
	c.markPathFact()
}
