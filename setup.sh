#!/bin/bash
# Build the framework from files on disk only (offline) and warm the Go build cache
# for the packages under contract.
set -e
cd "$(dirname "$0")"
. ./env.sh
mkdir -p bin evidence
(cd govc && go build -o ../bin/govc .)
# warm export data for the verifier's toolchain (first load otherwise costs ~70 s)
pkgs=$(python3 - <<'PY'
import json
p=json.load(open('props.json'))
s=set()
for v in p.values():
    s.update(v.get('packages',[]))
print(' '.join(sorted(s)))
PY
)
(cd "${VERIF_REPO:-/repo}" && go build -tags=verif $pkgs 2>&1 | tail -5) || true
echo "setup done"
