//go:build verif

package shard

// Machine-checked contracts (govc, see /verif/DESIGN.md). Comment-only file.

// ---- C47: a container is discarded for non-payment only if payments are enabled, the
// payment check answered without error with an unpaid mark u >= 0, and u + 3 <= epoch
// being processed (mathematically: a mark newer than the epoch never qualifies).
// unpaidKnown / unpaidSinceOf / paymentsEnabled are facts established only by the
// contracts of the ContainerPayments interface methods below (on their success results).

//@ ghost pred unpaidKnown(cnr cid.ID) bool
//@ ghost pred unpaidSinceOf(cnr cid.ID) int64
//@ ghost pred paymentsEnabled() bool

//@ iface (ContainerPayments).PaymentsDisabled
//@   property C47
//@   pureeffect
//@   ensures result == false ==> paymentsEnabled()

//@ iface (ContainerPayments).UnpaidSince
//@   property C47
//@   pureeffect
//@   ensures err == nil ==> unpaidKnown(a0) && unpaidSinceOf(a0) == res0

//@ callrule unpaid_grace_period in (*Shard).setEpochEventHandler
//@   property C47
//@   callee (*shard.Shard).DeleteContainer
//@   requires [payments_enabled] paymentsEnabled()
//@   requires [payment_status_known] unpaidKnown(a1)
//@   requires [unpaid_three_epochs_before_processed_epoch] unpaidSinceOf(a1) >= 0 && wide(unpaidSinceOf(a1)) + 3 <= wide(ne.epoch)

//@ func (*Shard).setEpochEventHandler
//@   property C47
//@   mode bv
