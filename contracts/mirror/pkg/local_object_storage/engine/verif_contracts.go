//go:build verif

package engine

// Machine-checked contracts (govc, see /verif/DESIGN.md). Comment-only file.

// ---- C47: the start-up clean-up may discard a container's objects on a shard only if
// the container source definitively reported that container as absent (error of class
// ContainerNotFound for the same id) — never on other errors, never for another id.

//@ callrule discard_only_absent_containers in (*StorageEngine).deleteNotFoundContainers*
//@   property C47
//@   callee (*shard.Shard).InhumeContainer, (*shard.Shard).DeleteContainer
//@   requires [source_reported_absent] containerAbsent(a0)
