//go:build verif

package common

// Machine-checked contracts (govc, see /verif/DESIGN.md). Comment-only file:
// it is excluded from every build without the `verif` tag and contains no code.

// ---- C11: payload range arithmetic, for every (mode, first, second, payloadLen).
// Spec functions are written over `wide` (128-bit) integers so that off+len
// cannot wrap inside the specification itself.

//@ pure func rngSat(mode uint8, a wide, b wide, L wide) bool = ite(mode == 0, true, ite(mode == 1, ite(b == 0, a == 0, a + b <= L), ite(mode == 2, a <= b && a < L, ite(mode == 3, a < L, ite(mode == 4, a > 0, false)))))
//@ pure func rngOff(mode uint8, a wide, b wide, L wide) wide = ite(mode == 0, 0, ite(mode == 1, ite(b == 0, 0, a), ite(mode == 2, a, ite(mode == 3, a, L - min(a, L)))))
//@ pure func rngLen(mode uint8, a wide, b wide, L wide) wide = ite(mode == 0, L, ite(mode == 1, ite(b == 0, L, b), ite(mode == 2, min(b, L - 1) - a + 1, ite(mode == 3, L - a, min(a, L)))))

//@ func (PayloadRange).Resolve
//@   property C11
//@   mode bv
//@   opt wide=66
//@   sweep
//@   ensures [ok_iff_satisfiable_mode0] r.Mode == 0 ==> (err == nil <==> rngSat(0, r.First, r.Second, payloadLen))
//@   ensures [ok_iff_satisfiable_mode1] r.Mode == 1 ==> (err == nil <==> rngSat(1, r.First, r.Second, payloadLen))
//@   ensures [ok_iff_satisfiable_mode2] r.Mode == 2 ==> (err == nil <==> rngSat(2, r.First, r.Second, payloadLen))
//@   ensures [ok_iff_satisfiable_mode3] r.Mode == 3 ==> (err == nil <==> rngSat(3, r.First, r.Second, payloadLen))
//@   ensures [ok_iff_satisfiable_mode4] r.Mode == 4 ==> (err == nil <==> rngSat(4, r.First, r.Second, payloadLen))
//@   ensures [out_of_range_error] r.Mode <= 4 && err != nil ==> errIs(err, apistatus.ErrObjectOutOfRange)
//@   ensures [unknown_mode_fails] r.Mode > 4 ==> err != nil
//@   ensures [zero_on_error] err != nil ==> res0 == 0 && res1 == 0
//@   ensures [offset] err == nil ==> wide(res0) == rngOff(r.Mode, r.First, r.Second, payloadLen)
//@   ensures [length] err == nil ==> wide(res1) == rngLen(r.Mode, r.First, r.Second, payloadLen)
//@   ensures [within_payload] err == nil ==> wide(res0) + wide(res1) <= wide(payloadLen)

//@ func NewPayloadRange
//@   property C11
//@   mode bv
//@   pureeffect
//@   ensures [fields] result.First == off && result.Second == ln && result.Mode == 1

//@ func (PayloadRange).Resolved
//@   property C11
//@   mode bv
//@   opt wide=66
//@   ensures [same_error] (err == nil) == rngSat(r.Mode, r.First, r.Second, payloadLen) || r.Mode > 4
//@   ensures [offset_length_form] err == nil ==> res0.Mode == 1 && wide(res0.First) == rngOff(r.Mode, r.First, r.Second, payloadLen) && wide(res0.Second) == rngLen(r.Mode, r.First, r.Second, payloadLen)

//@ func (PayloadRange).IsFull
//@   property C11
//@   mode bv
//@   opt wide=66
//@   ensures [full_means_whole_payload] result ==> (forall L uint64 :: L > 0 ==> rngSat(r.Mode, r.First, r.Second, L) && rngOff(r.Mode, r.First, r.Second, L) == 0 && rngLen(r.Mode, r.First, r.Second, L) == wide(L))
