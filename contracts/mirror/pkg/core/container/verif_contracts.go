//go:build verif

package containercore

// Machine-checked contracts (govc, see /verif/DESIGN.md). Comment-only file.

// ---- C47: "the container source definitively reports the container as absent" is the
// fact containerAbsent(cnr); it is established only by Source.Get answering with an
// error of class apistatus.ContainerNotFound for that very container id.

//@ ghost pred containerAbsent(cnr cid.ID) bool

//@ iface (Source).Get
//@   property C47
//@   pureeffect
//@   ensures errAs(err, apistatus.ContainerNotFound) ==> containerAbsent(a0)

//@ func IsErrNotFound
//@   property C47
//@   pureeffect
//@   ensures [exactly_not_found_class] result <==> errAs(err, apistatus.ContainerNotFound)
