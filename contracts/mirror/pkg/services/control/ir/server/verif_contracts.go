//go:build verif

package control

// Machine-checked contracts (govc, see /verif/DESIGN.md). Comment-only file.

// ---- C32 (inner ring control plane): default deny. In every method of *Server that
// implements control.ControlServiceServer (the set is generated from the interface, so a
// new RPC is covered without editing this file), every call other than the ones on the
// allow-list below requires authorised(request); authorised is established only by
// isValidRequest returning nil for that same request.

//@ ghost pred authorised(req any) bool
//@ ghost pred keyMatched() bool
//@ ghost pred sigVerified() bool

// per-invocation facts inside isValidRequest: some configured key equalled the key of the
// request's signature; the signature verification over the request body returned true
//@ callrule isValidRequest_key_fact in (*Server).isValidRequest
//@   property C32
//@   callee bytes.Equal
//@   defines result ==> keyMatched()
//@ callrule isValidRequest_sig_fact in (*Server).isValidRequest
//@   property C32
//@   callee (crypto.Signature).Verify
//@   defines result ==> sigVerified()

//@ func (*Server).isValidRequest
//@   property C32
//@   loop 1 invariant allowed ==> keyMatched()
//@   ensures [nil_only_for_allowed_key_and_valid_signature] err == nil ==> keyMatched() && sigVerified()
//@   defines err == nil ==> authorised(req)

//@ callrule control_default_deny in implements:control.ControlServiceServer
//@   property C32
//@   callee *
//@   except (*server.Server).isValidRequest, status.Error, status.Errorf, (error).Error, errors.Is, errors.As, fmt.Sprintf, fmt.Errorf
//@   requires [request_authorised_before_any_effect] authorised(iface(reqparam))
