//go:build verif

package object

// Machine-checked contracts (govc, see /verif/DESIGN.md). Comment-only file.

// Effect set E of the object service handlers: everything that reads, writes or forwards
// object data: the Handlers and Storage interfaces, client connections to other nodes,
// the forwarders, the search executor, the put streamer.

// ---- C45: while the local node is in maintenance no client operation reaches E.
// nodeNotInMaintenance() is established only by FSChain.LocalNodeUnderMaintenance()
// answering false (per invocation; for the streaming Put per received message, because
// the loop is cut at its head and nothing is carried over an iteration).
// Handlers.Put only constructs the streamer (no storage or network access); its effects
// are the putStream/Streamer calls, which are in E.
// Replicate is exempt by the property's title ("only client operations"); Head/SearchV2/
// Search/GetRangeHash are stubs that only return "unimplemented".

//@ ghost pred nodeNotInMaintenance() bool

//@ iface (FSChain).LocalNodeUnderMaintenance
//@   property C45
//@   pureeffect
//@   ensures result == false ==> nodeNotInMaintenance()

//@ callrule no_client_operation_in_maintenance in implements:object.ObjectServiceServer, (*Server).HeadBuffered, (*Server).SearchV2Buffered, !(*Server).Replicate
//@   property C45
//@   callee (object.Handlers).{Get,Head,Delete,GetRange}, (object.Storage).*, (object.ClientConstructor).*, object.forward*, (*object.Server).forwardSearchRequest, (*object.Server).ProcessSearch, (*object.Server).processSearchRequest, (*object.Server).searchOnRemoteNode, (*put.Streamer).*, (*object.putStream).*, (*engine.StorageEngine).*, (*meta.Meta).*
//@   requires [node_not_in_maintenance] nodeNotInMaintenance()

// ---- C29: every client handler verifies the request signatures, validates its tokens
// (meta header) and applies the access checks before any call into E.
// sigOK(req) is established only by the request-signature verifiers returning nil for that
// same request value; metaHeaderChecked() only by handleRequestMetaHeader returning nil;
// the ACL facts only by the ACLChecker methods (pkg/services/object/acl/v2 contracts);
// aclSkipAllowed() only by PutRequestToInfo answering ErrSkipRequest (a Put relayed inside
// the container, which the extractor decides).

//@ ghost pred sigOK(req any) bool
//@ ghost pred metaHeaderChecked() bool
//@ ghost pred aclSkipAllowed() bool

//@ dep crypto.VerifyRequestSignaturesN3
//@   property C29
//@   pureeffect
//@   defines err == nil ==> sigOK(req)

//@ func (*Server).handleRequestMetaHeader
//@   property C29
//@   defines err == nil ==> metaHeaderChecked()

//@ iface (ACLInfoExtractor).PutRequestToInfo
//@   property C29
//@   pureeffect
//@   defines errIs(err, v2.ErrSkipRequest) ==> aclSkipAllowed()

//@ callrule checks_before_effects in implements:object.ObjectServiceServer, (*Server).HeadBuffered, (*Server).SearchV2Buffered, !(*Server).Replicate, !(*Server).Put
//@   property C29
//@   callee (object.Handlers).{Get,Head,Delete,GetRange}, (object.Storage).*, (object.ClientConstructor).*, object.forward*, (*object.Server).forwardSearchRequest, (*object.Server).ProcessSearch, (*object.Server).processSearchRequest, (*object.Server).searchOnRemoteNode, (*put.Streamer).*, (*object.putStream).*, (*engine.StorageEngine).*, (*meta.Meta).*
//@   requires [signatures_verified] sigOK(iface(reqparam))
//@   requires [tokens_validated] metaHeaderChecked()
//@   requires [basic_acl_passed] basicACLPassed()
//@   requires [extended_acl_evaluated] extendedACLPassed()

// Put: the request is the message just received from the stream (local `req`); chunks of
// an accepted stream are forwarded after the signature check only (the access decision
// was taken on the init message of the same stream).
//@ callrule put_init_checks_before_effects in (*Server).Put
//@   property C29
//@   callee (*object.putStream).forwardInitRequest
//@   requires [signatures_verified] sigOK(iface(req))
//@   requires [tokens_validated] metaHeaderChecked()
//@   requires [access_checked_or_relay] (basicACLPassed() && stickyBitPassed() && extendedACLPassed()) || aclSkipAllowed()
//@ callrule put_chunk_checks_before_effects in (*Server).Put
//@   property C29
//@   callee (*object.putStream).forwardChunkRequest
//@   requires [signatures_verified] sigOK(iface(req))

//@ dep crypto.VerifyRequestSignaturesWithContext
//@   property C29
//@   pureeffect
//@   defines err == nil ==> sigOK(req)
