//go:build verif

package object

// Machine-checked contracts (govc, see /verif/DESIGN.md). Comment-only file.

// Effect set E of the object service handlers: everything that reads, writes or forwards
// object data: the Handlers and Storage interfaces, client connections to other nodes,
// the forwarders, the search executor, the put streamer.

// ---- C45: while the local node is in maintenance no client operation reaches E.
// nodeNotInMaintenance() is established only by FSChain.LocalNodeUnderMaintenance()
// answering false (per invocation; for the streaming Put per received message, because
// the loop is cut at its head and nothing is carried over an iteration).
// Handlers.Put only constructs the streamer (no storage or network access); its effects
// are the putStream/Streamer calls, which are in E.
// Replicate is exempt by the property's title ("only client operations"); Head/SearchV2/
// Search/GetRangeHash are stubs that only return "unimplemented".

//@ ghost pred nodeNotInMaintenance() bool

//@ iface (FSChain).LocalNodeUnderMaintenance
//@   property C45
//@   pureeffect
//@   ensures result == false ==> nodeNotInMaintenance()

//@ callrule no_client_operation_in_maintenance in implements:object.ObjectServiceServer, (*Server).HeadBuffered, (*Server).SearchV2Buffered, !(*Server).Replicate
//@   property C45
//@   callee (object.Handlers).{Get,Head,Delete,GetRange}, (object.Storage).*, (object.ClientConstructor).*, object.forward*, (*object.Server).forwardSearchRequest, (*object.Server).ProcessSearch, (*object.Server).processSearchRequest, (*object.Server).searchOnRemoteNode, (*put.Streamer).*, (*object.putStream).*, (*engine.StorageEngine).*, (*meta.Meta).*
//@   requires [node_not_in_maintenance] nodeNotInMaintenance()
