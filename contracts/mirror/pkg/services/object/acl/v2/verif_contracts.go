//go:build verif

package v2

// Machine-checked contracts (govc, see /verif/DESIGN.md). Comment-only file.

// ---- C29: facts "the access checks passed", established only by the ACLChecker
// interface methods on their success results (per invocation of a handler / per received
// message of a stream). RequestInfo is passed by value, so the facts are 0-ary.

//@ ghost pred basicACLPassed() bool
//@ ghost pred stickyBitPassed() bool
//@ ghost pred extendedACLPassed() bool

//@ iface (ACLChecker).CheckBasicACL
//@   property C29
//@   pureeffect
//@   defines result ==> basicACLPassed()

//@ iface (ACLChecker).StickyBitCheck
//@   property C29
//@   pureeffect
//@   defines result ==> stickyBitPassed()

// nil: the table allows; ErrNotMatched: no rule matched, the basic ACL decides
//@ iface (ACLChecker).CheckEACL
//@   property C29
//@   pureeffect
//@   defines (err == nil || errIs(err, ErrNotMatched)) ==> extendedACLPassed()
