#!/bin/bash
# usage: keep_seed.sh <id> <confirm-line> <check-result-summary>
id="$1"; confirm="$2"; result="$3"
src=${SEEDSRC:-/tmp/mut/out}/$id; dst=/verif/seeded/$id
mkdir -p "$dst" && cp "$src"/patch.diff "$src"/*_test.go "$src"/DEMO_PATH.txt "$dst"/ 2>/dev/null
python3 - "$src/meta.json" "$dst/meta.json" "$confirm" "$result" <<'PY'
import json,sys
try: m=json.load(open(sys.argv[1]))
except Exception as e: m={"note":"agent meta.json unreadable: %s"%e}
m["confirmed_by_me"]=sys.argv[3]
m["what_i_ran"]=["tools/confirm_seed.sh (scratch worktree: demo passes on clean tree, patch applies, go build ./..., demo fails with patch, existing tests of touched packages pass)","tools/trymut.sh (git -C /repo apply; ./check <prop>; git checkout)"]
m["check_result"]=sys.argv[4]
json.dump(m,open(sys.argv[2],'w'),indent=1)
PY
echo kept $id
