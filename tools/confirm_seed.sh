#!/bin/bash
# usage: confirm_seed.sh <outdir> <worktree>
# Confirms an agent-made seeded change in a scratch worktree: demo passes on clean code,
# fails with the patch; the tree builds with the patch. Prints CONFIRMED or the reason.
out="$1"; wt="$2"
set -u
cd "$wt" || exit 2
git checkout -q -- . && git clean -qfd
dpath=$(grep -iE '^\s*(path|demo[_ ]?path|place[^:]*)\s*[:=]' "$out/DEMO_PATH.txt" | head -1 | sed -E 's/^[^:=]*[:=]\s*//' | tr -d '`' | awk '{print $1}')
cmd=$(grep -iE '^\s*(command|cmd|run)\s*[:=]' "$out/DEMO_PATH.txt" | head -1 | sed -E 's/^[^:=]*[:=]\s*//' | tr -d '`')
if [ -z "$dpath" ]; then dpath=$(grep -oE '[A-Za-z0-9_./-]+_test\.go' "$out/DEMO_PATH.txt" | head -1); fi
if [ -z "$cmd" ]; then cmd=$(grep -E 'go test' "$out/DEMO_PATH.txt" | head -1 | tr -d '`'); fi
demo=$(ls "$out"/*_test.go 2>/dev/null | head -1)
[ -n "$dpath" ] && [ -n "$cmd" ] && [ -n "$demo" ] || { echo "UNPARSED dpath=$dpath cmd=$cmd demo=$demo"; exit 2; }
export GOFLAGS=-mod=mod GOPROXY=off
cp "$demo" "$dpath"
for extra in "$out"/*_test.go; do [ "$extra" != "$demo" ] && cp "$extra" "$(dirname "$dpath")/"; done
if ! bash -c "$cmd" > /tmp/confirm_clean.log 2>&1; then echo "DEMO-FAILS-ON-CLEAN"; tail -5 /tmp/confirm_clean.log; git checkout -q -- .; git clean -qfd; exit 1; fi
git apply "$out/patch.diff" || { echo "PATCH-DOES-NOT-APPLY"; git checkout -q -- .; git clean -qfd; exit 1; }
if ! go build ./... > /tmp/confirm_build.log 2>&1; then echo "BUILD-FAILS"; tail -5 /tmp/confirm_build.log; git checkout -q -- .; git clean -qfd; exit 1; fi
if bash -c "$cmd" > /tmp/confirm_mut.log 2>&1; then echo "DEMO-PASSES-WITH-PATCH"; git checkout -q -- .; git clean -qfd; exit 1; fi
# existing tests of the touched packages
pkgs=$(git diff --name-only | grep '\.go$' | grep -v _test.go | xargs -n1 dirname | sort -u | sed 's|^|./|')
skip='TestShardOpen|TestDumpIgnoreErrors|TestInitializationFailure|TestErrorReporting|TestExists|TestFlush'
rm -f "$dpath"; for extra in "$out"/*_test.go; do rm -f "$(dirname "$dpath")/$(basename "$extra")"; done
go test -vet=off -count=1 -skip "$skip" $pkgs > /tmp/confirm_pkgs.log 2>&1; rc=$?
git checkout -q -- . ; git clean -qfd
if [ $rc -ne 0 ]; then echo "EXISTING-TESTS-FAIL"; grep -E "^(--- FAIL|FAIL)" /tmp/confirm_pkgs.log | head; exit 1; fi
echo "CONFIRMED demo=$dpath pkgs=$pkgs"
