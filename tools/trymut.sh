#!/bin/bash
# usage: trymut.sh <patch.diff> <prop> [<prop>...]   -- applies a seeded change to /repo, runs the checks, reverts.
patch="$1"; shift
cd /repo || exit 2
if [ -n "$(git status --porcelain)" ]; then echo "REPO-NOT-CLEAN"; exit 2; fi
git apply "$patch" || { echo "PATCH-DOES-NOT-APPLY"; exit 2; }
for p in "$@"; do
  /verif/check "$p" -no-evidence > /tmp/trymut_$p.log 2>&1; rc=$?
  echo "== $p exit=$rc"; grep -E "^(VIOLATION|KNOWN-FINDING|UNDECIDED|BROKEN-CHECK|property )" /tmp/trymut_$p.log | cut -c1-260
done
git checkout -q -- . && git clean -qfd -e verif_contracts.go
