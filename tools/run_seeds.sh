#!/bin/bash
# usage: tools/run_seeds.sh [id...]  -- developer self-test (not a registered check): applies each
# seeded change of /verif/seeded to /repo, runs the check of its property, reverts, and reports
# whether the change was caught. Requires a clean /repo.
cd /verif || exit 2
ids=("$@"); [ ${#ids[@]} -eq 0 ] && ids=($(ls seeded))
for id in "${ids[@]}"; do
  prop=${id:0:3}
  patch=seeded/$id/patch.diff
  [ -f seeded/$id/patch_on_fixed_tree.diff ] && patch=seeded/$id/patch_on_fixed_tree.diff
  out=$(tools/trymut.sh /verif/$patch $prop 2>&1)
  if echo "$out" | grep -q "PATCH-DOES-NOT-APPLY\|REPO-NOT-CLEAN"; then echo "$id: $(echo "$out" | tail -1)"; continue; fi
  n=$(echo "$out" | grep -c "^VIOLATION")
  echo "$id: $( [ $n -gt 0 ] && echo CAUGHT || echo MISSED ) ($n violation lines) $(echo "$out" | grep '^VIOLATION' | head -1 | sed 's/.*obligation=//' | cut -c1-120)"
done
