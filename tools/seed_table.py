#!/usr/bin/env python3
# Regenerates the seed table of DESIGN.md §14.4 from seeded/*/meta.json (between the markers).
import json, glob, os, re
rows = []
for p in sorted(glob.glob('/verif/seeded/*/meta.json')):
    sid = os.path.basename(os.path.dirname(p))
    r = json.load(open(p)).get('check_result', '')
    low = r.lower()
    if low.startswith('caught by c33 only'):
        v = 'missed by C29, caught by C33'
    elif low.startswith('reclassified'):
        v = 'reclassified (harmless on the fixed tree)'
    elif low.startswith('missed:') or low.startswith('missed (') or low.startswith('missed -'):
        v = '**missed**'
    elif 'first missed' in low or 'missed at first' in low or 'after strengthening' in low:
        v = 'missed first, caught after strengthening'
    elif low.startswith('caught') or 'caught' in low[:60] or 'is caught' in low:
        v = 'caught'
    elif low.startswith('reported, but only incidentally'):
        v = 'reported only incidentally'
    else:
        v = '?'
    txt = r.replace('|', '\\|').replace('\n', ' ')
    if len(txt) > 420:
        txt = txt[:417] + '...'
    rows.append('| %s | %s | %s |' % (sid, v, txt))
tab = '| seed | verdict | failing obligation / reason |\n|---|---|---|\n' + '\n'.join(rows) + '\n'
d = open('/verif/DESIGN.md').read()
a, b = '<!-- seed-table-begin -->\n', '<!-- seed-table-end -->\n'
i, j = d.index(a) + len(a), d.index(b)
open('/verif/DESIGN.md', 'w').write(d[:i] + tab + d[j:])
import collections
print(collections.Counter(x.split('|')[2].strip() for x in rows))
